"""C12  Grid distances equal closed-form geometry and are metrics.

Bounded-exhaustive exploration of pyunicorn.core.Grid / GeoGrid (and
GeoNetwork / SpatialNetwork for the weights and area/distance weighted
measures) over small coordinate alphabets:

  ang_pairs    every 1-point grid and every ordered pair of the 44-point
               alphabet as a real GeoGrid: value, bitwise symmetry, range,
               self-distance
  ang_triples  every ordered triple as a 3-point GeoGrid: the same + the
               triangle inequality in all six orders
  ang_full     the whole alphabet as one grid in four node orders
  euc          Euclidean grids in dimension 1..4 over {-1, 0, 0.5, 3}: all
               ordered tuples of 1..3 points (dim<=2), all ordered pairs
               (dim 3, 4), the full 4^dim-point grid in three orders
  euc_lookup   Grid.node_number for all queries against all 3-point grids
  geo_lookup   GeoGrid.node_number for every alphabet point (+ off-alphabet
               queries) against every grid of 1..3 points of the 10-point
               sub-alphabet
  rect, rect3  coord_sequence_from_rect_grid / RegularGrid for all axis pairs
               (axes of length <=3 over 4 values) and axis triples
  region       GeoGrid.region_indices: rectangles / triangles x 3-node grids
  geo_net      node weights, area weighted connectivity and link distance
               measures on every graph <=3 nodes (directed and undirected)
               with 3-point grids
  spatial_net  the Euclidean counterparts on SpatialNetwork
"""
import itertools
import math

import numpy as np

from ..core import V
from ..domains import adj, all_graphs
from ..refmodel import geometry as G

LEVEL = "exploration"

# (lat, lon) in degrees
ALPHABET = [
    # poles, also with "other" longitudes (coincident points)
    (90, 0), (-90, 0), (90, 137), (-90, -45),
    # equator, 0/360 and +-180 aliases
    (0, 0), (0, 90), (0, 180), (0, -180), (0, 360), (0, -90), (0, 270),
    # next to the poles
    (89.999, 0), (-89.999, 0), (89.999, 180), (-89.999, 77),
    # antimeridian
    (45, 180), (45, -180), (-30, 180), (-30, -180),
    (45, 179.9999), (45, -179.9999),
    # aliases at mid latitudes
    (45, 0), (45, 360), (10, 350), (10, -10),
    # pairs 1e-4 degrees apart
    (30, 60), (30.0001, 60), (30, 60.0001), (0.0001, 0), (0, 1e-4),
    # exact antipodes of points above
    (-45, 180), (-30, -120), (-10, 170),
    # generic, one antipodal pair
    (52.5, 13.4), (-52.5, -166.6), (-33.9, 151.2), (35.7, 139.7),
    (-22.9, -43.2), (64.1, -21.9), (1.3, 103.8), (-77.85, 166.67),
    (-1.3, -76.2),
    # self product > 1 and antipodal product < -1 in single precision
    # (the kernel's clamp is active on these)
    (87, 0), (-87, -180),
]
NA = len(ALPHABET)          # quick and thorough tiers
# thorough tier only: a mid-latitude lattice and its antipodes (appended, so
# that the indices of the core alphabet never change)
ALPHABET += [(la, lo) for la in (-60, -15, 15, 75)
             for lo in (-135, -45, 45, 135)]
NT = len(ALPHABET)
_IDX = {p: i for i, p in enumerate(ALPHABET)}
SUB = [_IDX[p] for p in [(90, 0), (-90, -45), (0, 180), (0, -180), (30, 60),
                         (30.0001, 60), (-30, -120), (52.5, 13.4),
                         (-87, -180), (87, 0)]]
EXTRA_QUERIES = [(12.3, 45.6), (-89.5, 10.0), (0.0, 179.99), (0.0, -179.99),
                 (90.0, -77.0)]
EUC_ALPHA = [-1.0, 0.0, 0.5, 3.0]
EUC_QUERIES_1 = [-1.0, 0.0, 0.5, 3.0, 0.25, 1.75, -2.0, 10.0, -0.5]
AXIS_VALUES = [0.0, 5.0, -2.5, 60.0]
F32 = dict(rtol=2e-5, atol=2e-6)

_ORACLE = None


def oracle():
    global _ORACLE
    if _ORACLE is None:
        _ORACLE = [[G.angle_stored(p, q) for q in ALPHABET] for p in ALPHABET]
    return _ORACLE


def _geogrid(points):
    from pyunicorn.core import GeoGrid
    return GeoGrid(np.arange(2), np.array([p[0] for p in points], dtype=float),
                   np.array([p[1] for p in points], dtype=float),
                   silence_level=2)


def _grid(points):
    from pyunicorn.core import Grid
    return Grid(np.arange(2), np.array(points, dtype=float).T,
                silence_level=2)


def _bits(D):
    return np.ascontiguousarray(D).view(
        np.uint32 if D.dtype == np.float32 else np.uint64)


# ---------------------------------------------------------------------------
# angular distances


def fam_ang(case):
    idx = list(case)
    n = len(idx)
    pts = [ALPHABET[i] for i in idx]
    O = oracle()
    viol = []
    grid = _geogrid(pts)
    # a GeoGrid is also a Grid: on every other case the inherited Euclidean
    # matrix (of the (lat, lon) coordinates) is requested FIRST on the same
    # object, and once more afterwards - both kinds of distance must stay
    # what they are, in either order
    first_euclid = (sum(idx) % 2 == 0)
    try:
        Ea = grid.euclidean_distance() if first_euclid else None
        D = grid.angular_distance()
        D2 = grid.distance()
        Eb = grid.euclidean_distance()
    except Exception as ex:
        return {"viol": [V("GeoGrid.angular_distance:raises", repr(ex),
                           repr(ex), "a matrix")], "evals": 1, "sig": "raises"}
    ev = 0
    Eexp = np.array([[G.euclid(p, q) for q in pts] for p in pts])
    for nm, Eg in (("before", Ea), ("after", Eb)):
        if Eg is None:
            continue
        ev += n * n
        Eg = np.asarray(Eg, dtype=float)
        if Eg.shape != (n, n) or np.any(
                ~(np.abs(Eg - Eexp) <= G.euc_tol(Eexp, 2))):
            viol.append(V("GeoGrid.euclidean_distance:value:%s-angular" % nm,
                          "inherited Euclidean distance of the (lat, lon) "
                          "coordinates requested %s angular_distance() on the "
                          "same grid, points %s" % (nm, pts), Eg, Eexp))
    if D.shape != (n, n) or not np.array_equal(D, D2, equal_nan=True):
        viol.append(V("GeoGrid.distance:differs-from-angular_distance",
                      "", D2, D))
    if not np.all(np.isfinite(D)):
        viol.append(V("GeoGrid.angular_distance:nan", "points %s" % pts, D,
                      "finite angles"))
    if not np.array_equal(_bits(D), _bits(D.T)):
        viol.append(V("GeoGrid.angular_distance:asymmetric", "points %s" % pts,
                      D, "bitwise symmetric matrix"))
    Df = D.astype(float)
    if np.any(Df < 0) or np.any(Df > G.PI32):
        viol.append(V("GeoGrid.angular_distance:range", "points %s" % pts, D,
                      "[0, float32(pi)]"))
    worst = 0.0
    for a in range(n):
        for b in range(n):
            ev += 1
            th = O[idx[a]][idx[b]]
            tol = G.ang_tol(th)
            err = abs(Df[a, b] - th)
            if not np.isfinite(err):
                continue            # reported once as ...:nan
            worst = max(worst, err / tol)
            if not err <= tol:
                if a == b:
                    key = "GeoGrid.angular_distance:self-distance"
                else:
                    key = "GeoGrid.angular_distance:value:" + G.angle_class(th)
                viol.append(V(key, "points %s -> %s, accepted error %.3g" % (
                    pts[a], pts[b], tol), Df[a, b], th))
    tri = range(n) if n <= 3 else None
    if tri is not None:
        for a, b, c in itertools.permutations(range(n), 3):
            ev += 1
            slack = (G.ang_tol(O[idx[a]][idx[c]]) +
                     G.ang_tol(O[idx[a]][idx[b]]) +
                     G.ang_tol(O[idx[b]][idx[c]]))
            if Df[a, c] > Df[a, b] + Df[b, c] + slack:
                viol.append(V("GeoGrid.angular_distance:triangle",
                              "points %s" % ([pts[a], pts[b], pts[c]],),
                              [Df[a, c], Df[a, b], Df[b, c]],
                              "d(a,c) <= d(a,b)+d(b,c)+%.3g" % slack))
    else:
        T = np.array([[G.ang_tol(O[i][j]) for j in idx] for i in idx])
        for b in range(n):
            ev += n * n
            bad = Df > Df[:, [b]] + Df[[b], :] + T + T[:, [b]] + T[[b], :]
            if np.any(bad):
                a, c = np.argwhere(bad)[0]
                viol.append(V("GeoGrid.angular_distance:triangle",
                              "points %s" % ([pts[a], pts[b], pts[c]],),
                              [Df[a, c], Df[a, b], Df[b, c]],
                              "d(a,c) <= d(a,b)+d(b,c)+accepted errors"))
    return {"viol": viol, "evals": ev, "trivial": n == 1,
            "sig": (tuple(idx) if n > 3 else D.tobytes().hex()),
            "stats": {"worst_error_over_bound_ge_0.25": int(worst >= 0.25),
                      "worst_error_over_bound_ge_0.45": int(worst >= 0.45)}}


# ---------------------------------------------------------------------------
# Euclidean distances


def fam_euc(case):
    dim, pts = case
    n = len(pts)
    viol = []
    grid = _grid(pts)
    try:
        D = grid.euclidean_distance()
        D2 = grid.distance()
    except Exception as ex:
        return {"viol": [V("Grid.euclidean_distance:raises", repr(ex),
                           repr(ex), "a matrix")], "evals": 1, "sig": "raises"}
    if D.shape != (n, n) or not np.array_equal(D, D2, equal_nan=True):
        viol.append(V("Grid.distance:differs-from-euclidean_distance", "",
                      D2, D))
    if not np.all(np.isfinite(D)):
        viol.append(V("Grid.euclidean_distance:nan", "", D, "finite"))
    if not np.array_equal(_bits(D), _bits(D.T)):
        viol.append(V("Grid.euclidean_distance:asymmetric", "points %s" % (
            pts if n <= 3 else n), D, "bitwise symmetric matrix"))
    Df = D.astype(float)
    if np.any(np.diag(Df) != 0):
        viol.append(V("Grid.euclidean_distance:self-distance", "dim %d" % dim,
                      np.diag(Df), 0))
    E = np.array([[G.euclid(p, q) for q in pts] for p in pts])
    T = G.euc_tol(E, dim)
    ev = n * n
    bad = ~(np.abs(Df - E) <= T)
    if np.any(bad):
        a, b = np.argwhere(bad)[0]
        viol.append(V("Grid.euclidean_distance:value:dim%d" % dim,
                      "points %s -> %s" % (pts[a], pts[b]), Df[a, b],
                      E[a, b]))
    for b in range(n):
        ev += n * n
        bad = Df > Df[:, [b]] + Df[[b], :] + T + T[:, [b]] + T[[b], :]
        if np.any(bad):
            a, c = np.argwhere(bad)[0]
            viol.append(V("Grid.euclidean_distance:triangle",
                          "points %s" % ([pts[a], pts[b], pts[c]],),
                          [Df[a, c], Df[a, b], Df[b, c]],
                          "d(a,c) <= d(a,b)+d(b,c)"))
            break
    return {"viol": viol, "evals": ev, "trivial": n == 1,
            "sig": (dim, D.tobytes().hex() if n <= 3 else str(pts[:3]))}


def fam_euc_lookup(case):
    dim, pts, queries = case
    grid = _grid(pts)
    viol = []
    sig = []
    for q in queries:
        try:
            r = int(grid.node_number(tuple(q) if dim > 1 else (q[0],)))
        except Exception as ex:
            viol.append(V("Grid.node_number:raises", "query %s: %r" % (q, ex),
                          repr(ex), "an index"))
            continue
        d2 = [G.euclid_sq_exact(p, q) for p in pts]
        best = [i for i, d in enumerate(d2) if d == min(d2)]
        sig.append(r)
        if r not in best:
            viol.append(V("Grid.node_number:not-nearest:dim%d" % dim,
                          "grid %s query %s" % (pts, q), r, best))
    return {"viol": viol, "evals": len(queries),
            "sig": (dim, str(pts), tuple(sig))}


def fam_geo_lookup(case):
    idx, q = case
    pts = [ALPHABET[i] for i in idx]
    query = ALPHABET[q] if isinstance(q, int) else tuple(q)
    grid = _geogrid(pts)
    viol = []
    try:
        r = int(grid.node_number(lat_node=float(query[0]),
                                 lon_node=float(query[1])))
    except Exception as ex:
        return {"viol": [V("GeoGrid.node_number:raises", repr(ex), repr(ex),
                           "an index")], "evals": 1, "sig": "raises"}
    th = [G.angle((G.stored(p[0]), G.stored(p[1])), query) for p in pts]
    best = min(th)
    ok = 0 <= r < len(pts) and \
        th[r] <= best + G.ang_tol(best) + G.ang_tol(th[r])
    if not ok:
        viol.append(V("GeoGrid.node_number:not-nearest",
                      "grid %s query %s: oracle angles %s" % (pts, query, th),
                      r, [i for i, t in enumerate(th) if t == best]))
    return {"viol": viol, "evals": 1, "trivial": len(idx) == 1,
            "sig": (tuple(idx), str(q), r)}


# ---------------------------------------------------------------------------
# rectangular grids


def _eq_exact(a, b):
    a, b = np.asarray(a), np.asarray(b)
    return a.shape == b.shape and bool(np.array_equal(a, b))


def fam_rect(case):
    a, b = case
    from pyunicorn.core import Grid, GeoGrid
    viol = []
    exp = G.product_order([a, b])
    lib = np.asarray(Grid.coord_sequence_from_rect_grid(
        [np.array(a), np.array(b)]))
    if not _eq_exact(lib, exp):
        viol.append(V("Grid.coord_sequence_from_rect_grid:value:2-axes",
                      "axes %s x %s" % (a, b), lib, exp))
    if lib.shape != (2, len(a) * len(b)):
        return {"viol": viol, "evals": 1, "sig": "shape"}
    # everything below is held to the sequences the library generated (one
    # root cause, one key)
    got = GeoGrid.coord_sequence_from_rect_grid(np.array(a), np.array(b))
    if len(got) != 2 or not _eq_exact(got[0], lib[0]) or \
            not _eq_exact(got[1], lib[1]):
        viol.append(V("GeoGrid.coord_sequence_from_rect_grid:value",
                      "axes %s x %s" % (a, b), got, lib))
    lib32 = lib.astype(np.float32)
    g1 = Grid.RegularGrid(np.arange(2), [np.array(a), np.array(b)],
                          silence_level=2)
    if g1.N != len(a) * len(b) or not _eq_exact(g1.sequence(0), lib32[0]) \
            or not _eq_exact(g1.sequence(1), lib32[1]):
        viol.append(V("Grid.RegularGrid:value", "axes %s x %s" % (a, b),
                      [g1.sequence(0), g1.sequence(1)], lib32))
    g2 = GeoGrid.RegularGrid(np.arange(2), (np.array(a), np.array(b)),
                             silence_level=2)
    if g2.N != len(a) * len(b) or \
            not _eq_exact(g2.lat_sequence(), lib32[0]) or \
            not _eq_exact(g2.lon_sequence(), lib32[1]):
        viol.append(V("GeoGrid.RegularGrid:value", "lat %s x lon %s" % (a, b),
                      [g2.lat_sequence(), g2.lon_sequence()], lib32))
    # the distance matrices of the generated grids belong to the generated
    # points in that order: identical to those of a plain grid built from
    # the same node sequence (the values themselves are judged elsewhere)
    pts = [[float(x), float(y)] for x, y in zip(g1.sequence(0),
                                                g1.sequence(1))]
    D, E = g1.euclidean_distance(), _grid(pts).euclidean_distance()
    if D.shape != E.shape or not np.array_equal(_bits(D), _bits(E)):
        viol.append(V("Grid.RegularGrid:distance-order", "axes %s x %s" % (
            a, b), D, E))
    pts = [(float(x), float(y)) for x, y in zip(g2.lat_sequence(),
                                                g2.lon_sequence())]
    A, O = g2.angular_distance(), _geogrid(pts).angular_distance()
    if A.shape != O.shape or not np.array_equal(_bits(A), _bits(O)):
        viol.append(V("GeoGrid.RegularGrid:distance-order", "lat %s x lon %s"
                      % (a, b), A, O))
    return {"viol": viol, "evals": 6, "trivial": len(a) * len(b) == 1,
            "sig": (tuple(a), tuple(b))}


def fam_rect3(case):
    axes = case
    from pyunicorn.core import Grid
    viol, exc = [], {}
    got = np.asarray(Grid.coord_sequence_from_rect_grid(
        [np.array(a) for a in axes]))
    exp = G.product_order(axes)
    n = len(exp[0])
    if got.shape != (3, n) or sorted(map(tuple, got.T.tolist())) != \
            sorted(zip(*exp)):
        viol.append(V("Grid.coord_sequence_from_rect_grid:value:3-axes",
                      "axes %s: not the Cartesian product" % (axes,), got,
                      exp))
    elif not _eq_exact(got, exp):
        exc["3-axis node order differs from first-axis-slowest (order only "
            "documented for 2 axes)"] = 1
    g = Grid.RegularGrid(np.arange(2), [np.array(a) for a in axes],
                         silence_level=2)
    if g.N != n:
        viol.append(V("Grid.RegularGrid:value", "3 axes %s" % (axes,), g.N, n))
    return {"viol": viol, "evals": 2, "excluded": exc, "trivial": n == 1,
            "sig": str(axes)}


# ---------------------------------------------------------------------------
# regions

REGION_NODES = [(5, 5), (-5, 5), (5, -15), (20, 5), (5, 25), (-5, -15),
                (5, 350), (-5, 345.5)]


def _polygons():
    out = []
    lons = [-20, -5, 0, 11, 30]
    lats = [-10, 0, 11]
    for a, b in itertools.combinations(lons, 2):
        for c, d in itertools.combinations(lats, 2):
            ccw = [(a, c), (b, c), (b, d), (a, d)]
            for poly in (ccw, ccw[::-1]):
                out.append(poly)
                out.append(poly + [poly[0]])
    out.append([(0, 0), (30, 0), (0, 11)])
    out.append([(-20, -10), (11, 11), (30, -10)])
    out.append([(-20, -10), (-5, 11), (-5, -10), (-20, -10)])
    return out


def fam_region(case):
    nodes, poly = case
    pts = [REGION_NODES[i] for i in nodes]
    grid = _geogrid(pts)
    viol, exc = [], {}
    region = np.array([c for xy in poly for c in xy], dtype=float)
    lon32 = [G.stored(p[1]) for p in pts]
    lat32 = [G.stored(p[0]) for p in pts]
    P = [tuple(xy) for xy in poly]
    if min(lon32) >= 0:
        if any(x < 0 for x, _ in P) and any(x >= 0 for x, _ in P):
            return {"evals": 0, "trivial": True, "excluded": {
                "region straddling 0 deg on a 0..360 grid (remapping "
                "leaves the meaning open)": 1}}
        P = [(x + 360 if x < 0 else x, y) for x, y in P]
    if P[0] == P[-1]:
        P = P[:-1]
    try:
        got = np.asarray(grid.region_indices(region.copy()))
    except Exception as ex:
        return {"viol": [V("GeoGrid.region_indices:raises", repr(ex),
                           repr(ex), "a bool array")], "evals": 1}
    if got.shape != (len(pts),):
        viol.append(V("GeoGrid.region_indices:shape", "", got.shape,
                      len(pts)))
        return {"viol": viol, "evals": 1}
    ev = 0
    for k in range(len(pts)):
        exp = G.in_polygon((lon32[k], lat32[k]), P)
        if exp is None:
            exc["node on the region boundary"] = exc.get(
                "node on the region boundary", 0) + 1
            continue
        ev += 1
        if bool(got[k]) != exp:
            viol.append(V("GeoGrid.region_indices:value:%s" % (
                "0..360-grid" if min(lon32) >= 0 else "east-west-grid"),
                "node (lat,lon)=%s polygon (lon,lat)=%s" % (pts[k], poly),
                bool(got[k]), exp))
    return {"viol": viol, "evals": ev, "excluded": exc,
            "sig": (tuple(nodes), str(poly), tuple(got.astype(int)))}


# ---------------------------------------------------------------------------
# node weights, area weighted connectivity, link distances


NODIR = ("'does not use directionality' measures on a directed graph "
         "(normalisation by in+out degree: convention open)")


def _cmp(viol, key, msg, got, exp, tol):
    try:
        g = np.asarray(got, dtype=float)
        e = np.asarray(exp, dtype=float)
        ok = g.shape == e.shape and bool(np.all(np.abs(g - e) <= tol))
    except Exception:
        ok = False
    if not ok:
        viol.append(V(key, msg, got, exp))


def fam_geo_net(case):
    idx, directed, mask = case
    from pyunicorn.core import GeoNetwork
    n = len(idx)
    pts = [ALPHABET[i] for i in idx]
    A = adj(n, bool(directed), mask)
    grid = _geogrid(pts)
    viol, exc = [], {}
    tag = "directed" if directed else "undirected"
    try:
        net = GeoNetwork(grid, adjacency=A, directed=bool(directed),
                         node_weight_type="surface", silence_level=3)
    except Exception as ex:
        return {"evals": 0, "trivial": True, "excluded": {
            "GeoNetwork cannot be constructed (%s)" % type(ex).__name__: 1}}
    w = [G.cos_lat(p[0]) for p in pts]
    msg = "grid %s adjacency %s" % (pts, A.tolist())
    ev = 3
    nv = len(viol)
    _cmp(viol, "GeoGrid.cos_lat:value", "grid %s" % pts, grid.cos_lat(), w,
         G.COS_TOL)
    if len(viol) > nv:
        # root cause reported; everything below is derived from it
        return {"viol": viol, "evals": ev, "sig": "cos_lat"}
    _cmp(viol, "GeoNetwork.node_weights:value:surface", msg,
         net.node_weights, w, G.COS_TOL)
    net2 = GeoNetwork(grid, adjacency=A, directed=bool(directed),
                      node_weight_type="irrigation", silence_level=3)
    _cmp(viol, "GeoNetwork.node_weights:value:irrigation", msg,
         net2.node_weights, [x * x for x in w], 2 * G.COS_TOL)
    norm = math.fsum(w)
    if norm <= 4 * n * G.COS_TOL:
        exc["total area below single-precision resolution"] = 1
        return {"viol": viol, "evals": ev, "excluded": exc, "sig": "polar"}
    # area-weighted frequency distributions use the cosine of each node's own
    # latitude WHATEVER the node weights of the network are: the same
    # sequence gives the same distribution on the surface-, irrigation- and
    # unit-weighted network, it sums to one, and one bin holds everything
    try:
        net3 = GeoNetwork(grid, adjacency=A, directed=bool(directed),
                          node_weight_type=None, silence_level=3)
        seqs = {"index": np.arange(n, dtype=float),
                "alternating": np.array([float(i % 2) for i in range(n)])}
        for sname, seq in seqs.items():
            if seq.max() == seq.min():
                exc["distribution of a constant sequence (zero bin width)"] \
                    = exc.get("distribution of a constant sequence (zero "
                              "bin width)", 0) + 1
                continue
            for nb in (1, 2, 3):
                ref_d = None
                for wname, gn in (("surface", net), ("irrigation", net2),
                                  ("unit", net3)):
                    for meth in ("geographical_distribution",
                                 "geographical_cumulative_distribution"):
                        ev += 1
                        d = np.asarray(getattr(gn, meth)(
                            sequence=seq.copy(), n_bins=nb)[0], dtype=float)
                        key = (meth, )
                        if wname == "surface":
                            ref_d = ref_d or {}
                            ref_d[meth] = d
                            tot = d.sum() if "cumulative" not in meth \
                                else d[0]
                            if abs(tot - 1.0) > 1e-5:
                                viol.append(V(
                                    "GeoNetwork.%s:not-normalised" % meth,
                                    "%s, sequence %s, %d bins" % (msg, sname,
                                                                  nb),
                                    d, "total 1"))
                        elif d.shape != ref_d[meth].shape or not np.allclose(
                                d, ref_d[meth], rtol=1e-6, atol=1e-7):
                            viol.append(V(
                                "GeoNetwork.%s:depends-on-node-weights:%s" % (
                                    meth, wname),
                                "%s, sequence %s, %d bins: differs from the "
                                "same distribution on the surface-weighted "
                                "network" % (msg, sname, nb), d, ref_d[meth]))
    except Exception as ex:   # noqa
        viol.append(V("GeoNetwork.geographical_distribution:raises",
                      "%s %r" % (msg, ex), repr(ex), "a distribution"))
    Al = A.tolist()
    U = [[1 if (Al[i][j] or Al[j][i]) else 0 for j in range(n)]
         for i in range(n)]
    k_in = [sum(Al[j][i] for j in range(n)) for i in range(n)]
    k_out = [sum(Al[i]) for i in range(n)]
    e_in, e_out = G.awc(Al, w, "in"), G.awc(Al, w, "out")
    e_tot = [a + b for a, b in zip(e_in, e_out)] if directed else e_in

    def atol(k, e):
        return np.array([(ki + ei * n) * G.COS_TOL / norm + 2e-6 * ei + 1e-9
                         for ki, ei in zip(k, e)])
    obs = {}
    for name, exp, k in (
            ("inarea_weighted_connectivity", e_in, k_in),
            ("outarea_weighted_connectivity", e_out, k_out),
            ("area_weighted_connectivity", e_tot,
             [a + b for a, b in zip(k_in, k_out)] if directed else k_in)):
        ev += 1
        try:
            got = getattr(net, name)()
        except Exception as ex:
            viol.append(V("GeoNetwork.%s:raises:%s" % (name, tag),
                          "%s %r" % (msg, ex), repr(ex), exp))
            continue
        obs[name] = np.asarray(got, dtype=float)
        if name == "area_weighted_connectivity" and len(obs) == 3:
            # total = in (+ out when directed) of the library's own parts
            exp = obs["inarea_weighted_connectivity"] + (
                obs["outarea_weighted_connectivity"] if directed else 0)
        _cmp(viol, "GeoNetwork.%s:value:%s" % (name, tag), msg, got, exp,
             atol(k, exp))
    # neighbour statistics of AWC, held to the library's own AWC
    awc_lib = obs.get("area_weighted_connectivity")
    if awc_lib is not None and awc_lib.shape == (n,):
        deg = [sum(U[i]) for i in range(n)]
        if directed:
            exc[NODIR] = exc.get(NODIR, 0) + 2
        elif all(deg):
            exp = [math.fsum(awc_lib[j] for j in range(n) if U[i][j]) / deg[i]
                   for i in range(n)]
            ev += 2
            for name, e in (("average_neighbor_area_weighted_connectivity",
                             exp),
                            ("max_neighbor_area_weighted_connectivity",
                             [max(awc_lib[j] for j in range(n) if U[i][j])
                              for i in range(n)])):
                try:
                    got = getattr(net, name)()
                except Exception as ex:
                    viol.append(V("GeoNetwork.%s:raises:%s" % (name, tag),
                                  "%s %r" % (msg, ex), repr(ex), e))
                    continue
                _cmp(viol, "GeoNetwork.%s:value:%s" % (name, tag), msg, got,
                     e, 2e-6 + 2e-5 * np.abs(e))
        else:
            exc["neighbour AWC statistics with an isolated node"] = 1
    # link distance measures, held to the library's own distance matrix
    D = np.asarray(grid.angular_distance(), dtype=float)
    if not np.all(np.isfinite(D)):
        # one root cause, one key: the distance families own this
        viol.append(V("GeoGrid.angular_distance:nan", "points %s" % pts, D,
                      "finite angles"))
        return {"viol": viol, "evals": ev, "excluded": exc, "sig": "nan"}
    Dl = D.tolist()
    T = [[1 if Al[j][i] else 0 for j in range(n)] for i in range(n)]

    def dtol(e):
        return 2e-6 + 2e-5 * np.abs(np.asarray(e, dtype=float))
    for name, args, exp in (
            ("average_link_distance", (), G.average_link_distance(U, Dl)),
            ("inaverage_link_distance", (), G.average_link_distance(T, Dl)),
            ("outaverage_link_distance", (), G.average_link_distance(Al, Dl)),
            ("max_link_distance", (), G.max_link_distance(U, Dl))):
        if directed and name == "average_link_distance":
            exc[NODIR] = exc.get(NODIR, 0) + 1
            continue
        ev += 1
        try:
            got = getattr(net, name)(*args)
        except Exception as ex:
            viol.append(V("GeoNetwork.%s:raises:%s" % (name, tag),
                          "%s %r" % (msg, ex), repr(ex), exp))
            continue
        _cmp(viol, "GeoNetwork.%s:value:%s" % (name, tag), msg, got, exp,
             dtol(exp))
    for name, AA, kk in (
            ("connectivity_weighted_distance", U, None),
            ("inconnectivity_weighted_distance", T, None),
            ("outconnectivity_weighted_distance", Al, None)):
        exp = G.connectivity_weighted_distance(AA, Dl, w)
        if directed and name == "connectivity_weighted_distance":
            exc[NODIR] = exc.get(NODIR, 0) + 1
            continue
        ev += 1
        try:
            got = getattr(net, name)()
        except Exception as ex:
            viol.append(V("GeoNetwork.%s:raises:%s" % (name, tag),
                          "%s %r" % (msg, ex), repr(ex), exp))
            continue
        tol = np.array([math.pi * (1 + n * abs(e)) * G.COS_TOL / norm
                        for e in exp]) + dtol(exp)
        _cmp(viol, "GeoNetwork.%s:value:%s" % (name, tag), msg, got, exp, tol)
    if "area_weighted_connectivity" in obs:
        ev += 1
        try:
            got = net.total_link_distance()
            exp = np.asarray(net.average_link_distance()) * awc_lib
            _cmp(viol, "GeoNetwork.total_link_distance:value:" + tag, msg,
                 got, exp, dtol(exp))
        except Exception as ex:
            viol.append(V("GeoNetwork.total_link_distance:raises:" + tag,
                          "%s %r" % (msg, ex), repr(ex), None))
    return {"viol": viol, "evals": ev, "excluded": exc,
            "trivial": mask == 0,
            "sig": (tuple(idx), directed, mask,
                    tuple(np.round(obs.get("area_weighted_connectivity",
                                           np.zeros(1)), 7)))}


SPATIAL_POINTS = [(-1.0, -1.0), (0.0, 0.5), (3.0, 0.0), (0.5, 3.0), (0.0, 0.0)]


def fam_spatial_net(case):
    idx, directed, mask = case
    from pyunicorn.core import SpatialNetwork
    n = len(idx)
    pts = [SPATIAL_POINTS[i] for i in idx]
    A = adj(n, bool(directed), mask)
    grid = _grid(pts)
    viol = []
    tag = "directed" if directed else "undirected"
    net = SpatialNetwork(grid, adjacency=A, directed=bool(directed),
                         silence_level=3)
    # held to the library's own distance matrix (judged by the euc family)
    D = np.asarray(grid.euclidean_distance(), dtype=float).tolist()
    Al = A.tolist()
    U = [[1 if (Al[i][j] or Al[j][i]) else 0 for j in range(n)]
         for i in range(n)]
    T = [[1 if Al[j][i] else 0 for j in range(n)] for i in range(n)]
    msg = "grid %s adjacency %s" % (pts, Al)
    ev = 0
    exc = {}
    for name, exp in (
            ("average_link_distance", G.average_link_distance(U, D)),
            ("inaverage_link_distance", G.average_link_distance(T, D)),
            ("outaverage_link_distance", G.average_link_distance(Al, D)),
            ("max_link_distance", G.max_link_distance(U, D))):
        if directed and name == "average_link_distance":
            exc[NODIR] = exc.get(NODIR, 0) + 1
            continue
        ev += 1
        try:
            got = getattr(net, name)()
        except Exception as ex:
            viol.append(V("SpatialNetwork.%s:raises:%s" % (name, tag),
                          "%s %r" % (msg, ex), repr(ex), exp))
            continue
        _cmp(viol, "SpatialNetwork.%s:value:%s" % (name, tag), msg, got, exp,
             2e-6 + 2e-5 * np.abs(np.asarray(exp)))
    return {"viol": viol, "evals": ev, "trivial": mask == 0, "excluded": exc,
            "sig": (tuple(idx), directed, mask)}


# ---------------------------------------------------------------------------
# scale family: a fixed list of larger structured inputs (beyond the row
# blocks of 128 / 256 and the int16 flat index 32768 = 182^2), judged by the
# same closed forms, vectorised in float64

REG_SHAPES = {130: (10, 13), 209: (11, 19), 300: (12, 25), 520: (20, 26)}
TIME_AXIS = [1.9e6 + 6.0 * k for k in range(4)]      # "hours since 1800"
LG = "large-grid"


def _scale_points(name, n):
    """(lat, lon) lists in degrees."""
    if name == "regular":
        a, b = REG_SHAPES[n]
        lat = [-90.0 + 180.0 * i / (a - 1) for i in range(a)]
        lon = [-180.0 + 360.0 * j / (b - 1) for j in range(b)]
        return [(la, lo) for la in lat for lo in lon]
    return [(math.degrees(math.asin(2 * (i + 0.5) / n - 1)),
             (i * 137.50776405) % 360.0 - 180.0) for i in range(n)]


def _scale_xyz(n, dim, offset=0.0):
    """Deterministic scattered dyadic coordinates; `offset` shifts the first
    coordinate to the magnitude of a time axis in hours."""
    pts = []
    if dim == 1 and offset:
        return [[offset + 6.0 * i] for i in range(n)]     # 6-hourly axis
    for i in range(n):
        c = [offset + ((i * 37) % 101) / 4.0 - 10.0,
             ((i * 53) % 89) / 8.0, float((i * i) % 97 - 40)]
        pts.append(c[:dim])
    return pts


def _ring_chords(n, directed):
    A = np.zeros((n, n), dtype=np.int8)
    links = [(i, (i + 1) % n) for i in range(n)]
    links += [(i, (i + n // 3) % n) for i in range(0, n, 3)]
    links += [(n - 1, n // 2), (n - 2, 1)]
    for k, (i, j) in enumerate(links):
        if i == j:
            continue
        A[i, j] = 1
        if not directed or k % 6 == 0:
            A[j, i] = 1
    return A


def _scale_geogrid(pts):
    from pyunicorn.core import GeoGrid
    return GeoGrid(np.array(TIME_AXIS), np.array([p[0] for p in pts]),
                   np.array([p[1] for p in pts]), silence_level=2)


def _scale_grid(pts):
    from pyunicorn.core import Grid
    return Grid(np.array(TIME_AXIS), np.array(pts, dtype=float).T,
                silence_level=2)


def _metric_checks(Df, T, cls, pts, viol):
    """Triangle inequality over all triples, vectorised."""
    n = len(Df)
    for b in range(n):
        bad = Df > Df[:, [b]] + Df[[b], :] + T + T[:, [b]] + T[[b], :]
        if np.any(bad):
            a, c = np.argwhere(bad)[0]
            viol.append(V("%s:triangle:%s" % (cls, LG),
                          "points %s" % ([pts[a], pts[b], pts[c]],),
                          [Df[a, c], Df[a, b], Df[b, c]],
                          "d(a,c) <= d(a,b)+d(b,c)+accepted errors"))
            return
    return


def _scale_geo_dist(name, n):
    pts = _scale_points(name, n)
    grid = _scale_geogrid(pts)
    viol = []
    D = grid.angular_distance()
    lat, lon = G.np_stored([p[0] for p in pts]), \
        G.np_stored([p[1] for p in pts])
    if not (np.array_equal(np.asarray(grid.lat_sequence(), float), lat) and
            np.array_equal(np.asarray(grid.lon_sequence(), float), lon)):
        viol.append(V("GeoGrid.lat_sequence:value:" + LG, "", None, None))
    O = G.np_angles(lat, lon)
    T = G.np_ang_tol(O)
    cls = "GeoGrid.angular_distance"
    if D.shape != (n, n) or not np.all(np.isfinite(D)):
        viol.append(V(cls + ":nan:" + LG, "%s grid, %d nodes" % (name, n),
                      D.shape, "finite (n,n) matrix"))
        return viol, n * n, "nan"
    if not np.array_equal(_bits(D), _bits(D.T)):
        i, j = np.argwhere(_bits(D) != _bits(D.T))[0]
        viol.append(V(cls + ":asymmetric:" + LG, "nodes %d,%d: %s %s" % (
            i, j, pts[i], pts[j]), [D[i, j], D[j, i]], "bitwise symmetric"))
    Df = D.astype(float)
    if np.any(Df < 0) or np.any(Df > G.PI32):
        viol.append(V(cls + ":range:" + LG, "", [Df.min(), Df.max()],
                      "[0, float32(pi)]"))
    bad = ~(np.abs(Df - O) <= T)
    if np.any(bad):
        for i, j in np.argwhere(bad)[:50]:
            key = (cls + ":self-distance:" + LG if i == j else
                   "%s:value:%s:%s" % (cls, G.angle_class(O[i, j]), LG))
            if not any(v["key"] == key for v in viol):
                viol.append(V(key, "nodes %d -> %d of %d: %s -> %s, accepted "
                              "error %.3g" % (i, j, n, pts[i], pts[j],
                                              T[i, j]), Df[i, j], O[i, j]))
    _metric_checks(Df, T, cls, pts, viol)
    return viol, n * n + n ** 3, (name, n, float(np.max(np.abs(Df - O) / T)))


def _scale_geo_lookup(name, n):
    pts = _scale_points(name, n)
    grid = _scale_geogrid(pts)
    viol = []
    lat, lon = G.np_stored([p[0] for p in pts]), \
        G.np_stored([p[1] for p in pts])
    queries = [tuple(map(float, q)) for q in ALPHABET[:NA]] + \
        [tuple(map(float, q)) for q in EXTRA_QUERIES] + \
        [(float(lat[i]), float(lon[i])) for i in range(0, n, 7)] + \
        [(float(lat[n - 1]), float(lon[n - 1])),
         (float(lat[n - 2]) + 0.3, float(lon[n - 2]) - 0.2)]
    th = G.np_angles(lat, lon, [q[0] for q in queries],
                     [q[1] for q in queries])
    sig = []
    for k, q in enumerate(queries):
        try:
            r = int(grid.node_number(lat_node=q[0], lon_node=q[1]))
        except Exception as ex:
            viol.append(V("GeoGrid.node_number:raises:" + LG, "query %s: %r"
                          % (q, ex), repr(ex), "an index"))
            continue
        best = float(th[:, k].min())
        sig.append(r)
        if not (0 <= r < n and th[r, k] <= best + G.ang_tol(best) +
                G.ang_tol(float(th[r, k]))):
            viol.append(V("GeoGrid.node_number:not-nearest:" + LG,
                          "%s grid of %d nodes, query %s: returned node at "
                          "%.9g, nearest (node %d) at %.9g" % (
                              name, n, q, th[r, k] if 0 <= r < n else -1,
                              int(th[:, k].argmin()), best), r,
                          int(th[:, k].argmin())))
    return viol, len(queries), (name, n, tuple(sig))


def _scale_geo_net(name, n, directed):
    from pyunicorn.core import GeoNetwork
    pts = _scale_points(name, n)
    grid = _scale_geogrid(pts)
    A = _ring_chords(n, directed)
    viol = []
    tag = ("directed" if directed else "undirected") + ":" + LG
    net = GeoNetwork(grid, adjacency=A, directed=bool(directed),
                     node_weight_type="surface", silence_level=3)
    w = np.array([G.cos_lat(p[0]) for p in pts])
    msg = "%s grid, ring with chords on %d nodes" % (name, n)
    ev = 0

    def cmp(key, got, exp, tol):
        nonlocal ev
        ev += 1
        g = np.asarray(got, dtype=float)
        e = np.asarray(exp, dtype=float)
        if g.shape != e.shape or not np.all(np.abs(g - e) <= tol):
            k = int(np.argmax(np.abs(g - e) - tol)) if g.shape == e.shape \
                else -1
            viol.append(V(key, "%s; worst node %d" % (msg, k),
                          g[k] if k >= 0 else g.shape,
                          e[k] if k >= 0 else e.shape))
            return False
        return True
    if not cmp("GeoGrid.cos_lat:value:" + LG, grid.cos_lat(), w, G.COS_TOL):
        return viol, ev, "cos_lat"
    cmp("GeoNetwork.node_weights:value:surface:" + LG, net.node_weights, w,
        G.COS_TOL)
    norm = float(w.sum())
    Af = A.astype(float)
    e_in, e_out = Af.T @ w / norm, Af @ w / norm
    k_in, k_out = Af.sum(axis=0), Af.sum(axis=1)

    def atol(k, e):
        return (k + e * n) * G.COS_TOL / norm + 2e-6 * e + 1e-9
    lib_in = net.inarea_weighted_connectivity()
    lib_out = net.outarea_weighted_connectivity()
    cmp("GeoNetwork.inarea_weighted_connectivity:value:" + tag, lib_in, e_in,
        atol(k_in, e_in))
    cmp("GeoNetwork.outarea_weighted_connectivity:value:" + tag, lib_out,
        e_out, atol(k_out, e_out))
    tot = np.asarray(lib_in, float)
    if directed:
        tot = tot + np.asarray(lib_out, float)
    cmp("GeoNetwork.area_weighted_connectivity:value:" + tag,
        net.area_weighted_connectivity(), tot, 1e-9 + 1e-6 * np.abs(tot))
    D = np.asarray(grid.angular_distance(), dtype=float)
    if not np.all(np.isfinite(D)):
        viol.append(V("GeoGrid.angular_distance:nan:" + LG, msg, None,
                      "finite"))
        return viol, ev, "nan"

    def ald(M):
        k = M.sum(axis=1)
        return np.where(k > 0, (D * M).sum(axis=1) / np.maximum(k, 1), 0.0)

    def dtol(e):
        return 2e-6 + 2e-5 * np.abs(e)
    U = ((Af + Af.T) > 0).astype(float)
    for name_, M in (("inaverage_link_distance", Af.T),
                     ("outaverage_link_distance", Af)) + (
            () if directed else (("average_link_distance", U),)):
        e = ald(M)
        cmp("GeoNetwork.%s:value:%s" % (name_, tag), getattr(net, name_)(),
            e, dtol(e))
    e = (D * U).max(axis=1)
    cmp("GeoNetwork.max_link_distance:value:" + tag, net.max_link_distance(),
        e, dtol(e))
    for name_, M in (("inconnectivity_weighted_distance", Af.T),
                     ("outconnectivity_weighted_distance", Af)):
        k = M.sum(axis=1)
        e = np.where(k > 0, (M * w[None, :] * D).sum(axis=1) /
                     (np.maximum(k, 1) * norm), 0.0)
        cmp("GeoNetwork.%s:value:%s" % (name_, tag), getattr(net, name_)(),
            e, math.pi * (1 + n * np.abs(e)) * G.COS_TOL / norm + dtol(e))
    return viol, ev, (name, n, directed, round(float(e_in[n - 1]), 7))


def _scale_rect():
    from pyunicorn.core import Grid, GeoGrid
    viol = []
    a = [-90.0 + 180.0 * i / 11 for i in range(12)]
    b = [-180.0 + 360.0 * j / 24 for j in range(25)]
    exp = G.product_order([a, b])
    lib = np.asarray(Grid.coord_sequence_from_rect_grid(
        [np.array(a), np.array(b)]))
    if not _eq_exact(lib, exp):
        viol.append(V("Grid.coord_sequence_from_rect_grid:value:2-axes:" + LG,
                      "axes of 12 x 25", lib.shape, np.asarray(exp).shape))
        return viol, 1, "rect"
    lib32 = lib.astype(np.float32)
    g1 = Grid.RegularGrid(np.array(TIME_AXIS), [np.array(a), np.array(b)],
                          silence_level=2)
    g2 = GeoGrid.RegularGrid(np.array(TIME_AXIS), (np.array(a), np.array(b)),
                             silence_level=2)
    if g1.N != 300 or not _eq_exact(g1.sequence(0), lib32[0]) or \
            not _eq_exact(g1.sequence(1), lib32[1]):
        viol.append(V("Grid.RegularGrid:value:" + LG, "axes 12 x 25", g1.N,
                      300))
    if g2.N != 300 or not _eq_exact(g2.lat_sequence(), lib32[0]) or \
            not _eq_exact(g2.lon_sequence(), lib32[1]):
        viol.append(V("GeoGrid.RegularGrid:value:" + LG, "axes 12 x 25",
                      g2.N, 300))
    pts = list(zip(exp[0], exp[1]))
    Dg, Dp = g2.angular_distance(), _scale_geogrid(pts).angular_distance()
    if Dg.shape != Dp.shape or not np.array_equal(_bits(Dg), _bits(Dp)):
        viol.append(V("GeoGrid.RegularGrid:distance-order:" + LG,
                      "axes 12 x 25", Dg.shape, Dp.shape))
    De = g1.euclidean_distance()
    Dq = _scale_grid([list(p) for p in pts]).euclidean_distance()
    if De.shape != Dq.shape or not np.array_equal(_bits(De), _bits(Dq)):
        viol.append(V("Grid.RegularGrid:distance-order:" + LG,
                      "axes 12 x 25", De.shape, Dq.shape))
    axes = [[0.0, 5.0, -2.5, 60.0, 1.0], [float(k) for k in range(6)],
            [10.0 * k for k in range(10)]]
    got = np.asarray(Grid.coord_sequence_from_rect_grid(
        [np.array(x) for x in axes]))
    e3 = G.product_order(axes)
    if got.shape != (3, 300) or sorted(map(tuple, got.T.tolist())) != \
            sorted(zip(*e3)):
        viol.append(V("Grid.coord_sequence_from_rect_grid:value:3-axes:" + LG,
                      "axes 5 x 6 x 10: not the Cartesian product",
                      got.shape, (3, 300)))
    return viol, 7, "rect"


def _scale_euc(n, dim, offset):
    pts = _scale_xyz(n, dim, offset)
    grid = _scale_grid(pts)
    viol = []
    cls = "Grid.euclidean_distance"
    D = grid.euclidean_distance()
    X = G.np_stored(pts)
    E = G.np_euclid(X)
    T = G.euc_tol(E, dim)
    if D.shape != (n, n) or not np.all(np.isfinite(D)):
        viol.append(V(cls + ":nan:" + LG, "%d points, dim %d" % (n, dim),
                      D.shape, "finite (n,n) matrix"))
        return viol, 1, "nan"
    if not np.array_equal(_bits(D), _bits(D.T)):
        viol.append(V(cls + ":asymmetric:" + LG, "%d points, dim %d" % (
            n, dim), None, "bitwise symmetric"))
    Df = D.astype(float)
    if np.any(np.diag(Df) != 0):
        viol.append(V(cls + ":self-distance:" + LG, "", np.diag(Df).max(), 0))
    bad = ~(np.abs(Df - E) <= T)
    if np.any(bad):
        i, j = np.argwhere(bad)[0]
        viol.append(V("%s:value:dim%d:%s" % (cls, dim, LG),
                      "nodes %d -> %d of %d: %s -> %s" % (
                          i, j, n, X[i].tolist(), X[j].tolist()),
                      Df[i, j], E[i, j]))
    _metric_checks(Df, T, cls, pts, viol)
    # nearest-node lookups, exact rational oracle
    queries = [X[i].tolist() for i in range(0, n, 7)] + \
        [X[n - 1].tolist(), (X[n - 2] + 0.25).tolist(),
         (X[0] - 1000.0).tolist(), (X[n // 2] + 0.125).tolist()]
    ev = n * n + n ** 3
    for q in queries:
        ev += 1
        try:
            r = int(grid.node_number(tuple(q)))
        except Exception as ex:
            viol.append(V("Grid.node_number:raises:" + LG, "query %s: %r" % (
                q, ex), repr(ex), "an index"))
            continue
        d2 = [G.euclid_sq_exact(p, q) for p in pts]
        m = min(d2)
        if not (0 <= r < n and d2[r] == m):
            viol.append(V("Grid.node_number:not-nearest:dim%d:%s" % (dim, LG),
                          "%d points, query %s" % (n, q), r, d2.index(m)))
    return viol, ev, (n, dim, offset, float(Df.max()))


def _scale_euc_net(n, directed):
    from pyunicorn.core import SpatialNetwork
    pts = _scale_xyz(n, 3)
    grid = _scale_grid(pts)
    A = _ring_chords(n, directed)
    net = SpatialNetwork(grid, adjacency=A, directed=bool(directed),
                         silence_level=3)
    D = np.asarray(grid.euclidean_distance(), dtype=float)
    Af = A.astype(float)
    U = ((Af + Af.T) > 0).astype(float)
    viol = []
    tag = ("directed" if directed else "undirected") + ":" + LG
    ev = 0
    for name_, M in (("inaverage_link_distance", Af.T),
                     ("outaverage_link_distance", Af)) + (
            () if directed else (("average_link_distance", U),)):
        k = M.sum(axis=1)
        e = np.where(k > 0, (D * M).sum(axis=1) / np.maximum(k, 1), 0.0)
        g = np.asarray(getattr(net, name_)(), dtype=float)
        ev += 1
        if g.shape != e.shape or not np.all(
                np.abs(g - e) <= 2e-6 + 2e-5 * np.abs(e)):
            viol.append(V("SpatialNetwork.%s:value:%s" % (name_, tag),
                          "ring with chords on %d nodes" % n, g[-3:], e[-3:]))
    e = (D * U).max(axis=1)
    g = np.asarray(net.max_link_distance(), dtype=float)
    ev += 1
    if g.shape != e.shape or not np.all(np.abs(g - e) <= 2e-6 + 2e-5 * e):
        viol.append(V("SpatialNetwork.max_link_distance:value:" + tag,
                      "ring with chords on %d nodes" % n, g[-3:], e[-3:]))
    return viol, ev, (n, directed)


def _raise_key(ex):
    """<module>.<function> of the innermost pyunicorn frame of a library
    exception (legal large inputs must not raise)."""
    import traceback
    name = "pyunicorn"
    for fr in traceback.extract_tb(ex.__traceback__):
        if "pyunicorn" in fr.filename:
            name = "%s.%s" % (fr.filename.rsplit("/", 1)[-1].split(".")[0],
                              fr.name)
    return "%s:raises:%s" % (name, LG)


def fam_scale(case):
    try:
        return _fam_scale(case)
    except Exception as ex:      # noqa  (harness bugs would show the same
        # way; the key names the library frame, the message the exception)
        if "pyunicorn" not in "".join(
                f.filename for f in __import__("traceback").extract_tb(
                    ex.__traceback__)[1:]):
            raise
        return {"viol": [V(_raise_key(ex), "%s: %r" % (case, ex), repr(ex),
                           "a value")], "evals": 1, "sig": "raises"}


def _fam_scale(case):
    kind = case[0]
    if kind == "geo_dist":
        viol, ev, sig = _scale_geo_dist(case[1], case[2])
    elif kind == "geo_lookup":
        viol, ev, sig = _scale_geo_lookup(case[1], case[2])
    elif kind == "geo_net":
        viol, ev, sig = _scale_geo_net(case[1], case[2], case[3])
    elif kind == "rect":
        viol, ev, sig = _scale_rect()
    elif kind == "euc":
        viol, ev, sig = _scale_euc(case[1], case[2], case[3])
    else:
        viol, ev, sig = _scale_euc_net(case[1], case[2])
    return {"viol": viol, "evals": ev, "sig": (kind, sig)}


FAMILIES = {"scale": fam_scale, "ang_pairs": fam_ang,
            "ang_triples": fam_ang, "ang_full": fam_ang,
            "euc": fam_euc, "euc_lookup": fam_euc_lookup,
            "geo_lookup": fam_geo_lookup, "rect": fam_rect,
            "rect3": fam_rect3, "region": fam_region, "geo_net": fam_geo_net,
            "spatial_net": fam_spatial_net}


# ---------------------------------------------------------------------------


def _axes(values, lmax):
    out = []
    for L in range(1, lmax + 1):
        out += [list(a) for a in itertools.product(values, repeat=L)]
    return out


def run(ctx):
    thorough = ctx.tier == "thorough"
    G.selfcheck()
    ctx.rule = (
        "angular: every ordered tuple of 1..3 points of a %d-point alphabet "
        "(poles, equator, +-89.999, antimeridian, 0/360 aliases, pairs 1e-4 "
        "deg apart, exact antipodes, points where the single-precision "
        "cosine leaves [-1,1], generic) as a real GeoGrid + the full alphabet "
        "in 4 orders; Euclidean: dim 1..4 over %s; lookups: every query x "
        "every grid of <=3 points; rectangular: all axis pairs (axes of "
        "length <=3 over %s); regions: %d polygons x 3-node grids; networks: "
        "every graph on <=3 nodes x 3-point grids.  Trivial = 1-point grids "
        "and edgeless graphs; distinct = distinct returned matrices / "
        "indices / sequences." % (NT if thorough else NA, EUC_ALPHA,
                                  AXIS_VALUES, len(_polygons())))
    R = range(NT if thorough else NA)
    ctx.explore("ang_pairs", [[i] for i in R] +
                [[i, j] for i in R for j in R], chunk=64,
                desc="all ordered pairs of the alphabet as 2-point GeoGrids")
    ctx.explore("ang_triples", [[i, j, k] for i in R for j in R for k in R],
                chunk=512, desc="all ordered triples as 3-point GeoGrids")
    order = list(R)
    ctx.explore("ang_full", [order, order[::-1],
                             order[13:] + order[:13],
                             order[::2] + order[1::2]],
                desc="whole alphabet as one grid")
    # Euclidean
    cases = []
    for dim in (1, 2):
        P = [list(p) for p in itertools.product(EUC_ALPHA, repeat=dim)]
        for L in (1, 2, 3):
            cases += [[dim, [list(q) for q in t]]
                      for t in itertools.product(P, repeat=L)]
    P3 = [list(p) for p in itertools.product(EUC_ALPHA, repeat=3)]
    cases += [[3, [p, q]] for p in P3 for q in P3]
    P4 = [list(p) for p in itertools.product(EUC_ALPHA, repeat=4)]
    if thorough:
        cases += [[4, [p, q]] for p in P4 for q in P4]
    else:
        corners = [list(p) for p in itertools.product([-1.0, 3.0], repeat=4)]
        cases += [[4, [p, q]] for p in P4 for q in corners]
        cases += [[4, [q, p]] for p in P4 for q in corners]
    for dim, P in ((1, None), (2, None), (3, P3), (4, P4)):
        P = P or [list(p) for p in itertools.product(EUC_ALPHA, repeat=dim)]
        m = len(P)
        stride = [P[(7 * i) % m] for i in range(m)] if m % 7 else P
        cases += [[dim, P], [dim, P[::-1]], [dim, stride]]
    ctx.explore("euc", cases, chunk=128, desc="Euclidean grids dim 1..4")
    cases = []
    P1 = [[x] for x in EUC_ALPHA]
    for t in itertools.product(P1, repeat=3):
        cases.append([1, [list(p) for p in t], [[q] for q in EUC_QUERIES_1]])
    P2 = [list(p) for p in itertools.product(EUC_ALPHA, repeat=2)]
    Q2 = P2 + [[0.25, 0.25], [1.75, 1.75], [-0.5, -0.5], [1.0, 1.0],
               [0.25, 3.0]]
    for t in itertools.product(P2, repeat=3):
        cases.append([2, [list(p) for p in t], Q2])
    C3 = [list(p) for p in itertools.product([-1.0, 3.0], repeat=3)]
    for t in itertools.product(C3, repeat=3):
        cases.append([3, [list(p) for p in t], P3 + [[1.0, 1.0, 1.0]]])
    ctx.explore("euc_lookup", cases, chunk=64,
                desc="Grid.node_number, all queries x all 3-point grids")
    queries = list(R) + [list(q) for q in EXTRA_QUERIES]
    cases = []
    for L in (1, 2, 3):
        for t in itertools.product(SUB, repeat=L):
            for q in queries:
                cases.append([list(t), q])
    ctx.explore("geo_lookup", cases, chunk=512,
                desc="GeoGrid.node_number, all queries x all grids <=3 points")
    axes = _axes(AXIS_VALUES, 3)
    ctx.explore("rect", [[a, b] for a in axes for b in axes], chunk=64,
                desc="rectangular grids from all axis pairs")
    ax3 = _axes(AXIS_VALUES[:3], 2)
    ctx.explore("rect3", [[a, b, c] for a in ax3 for b in ax3 for c in ax3],
                chunk=64, desc="rectangular grids from axis triples")
    polys = _polygons()
    cases = [[list(t), [list(xy) for xy in poly]]
             for t in itertools.permutations(range(len(REGION_NODES)), 3)
             for poly in polys]
    ctx.explore("region", cases, chunk=256, desc="region_indices")
    cases = []
    for p in SUB:
        cases.append([[p], 0, 0])
    for t in itertools.permutations(SUB, 2):
        for d in (0, 1):
            for (_, _, m) in all_graphs(2, bool(d)):
                cases.append([list(t), d, m])
    for t in itertools.permutations(SUB, 3):
        for (_, _, m) in all_graphs(3, False):
            cases.append([list(t), 0, m])
    for t in itertools.permutations(SUB[:6] if not thorough else SUB[:8], 3):
        for (_, _, m) in all_graphs(3, True):
            cases.append([list(t), 1, m])
    ctx.explore("geo_net", cases, chunk=64,
                desc="cos-lat weights, AWC, link distances on graphs <=3")
    cases = []
    for t in itertools.permutations(range(len(SPATIAL_POINTS)), 3):
        for d in (0, 1):
            for (_, _, m) in all_graphs(3, bool(d)):
                cases.append([list(t), d, m])
    ctx.explore("spatial_net", cases, chunk=64,
                desc="Euclidean link distances on SpatialNetwork")
    # scale: fixed list of larger structured inputs, simplest first
    G.selfcheck_np()
    sizes = [130, 209, 300] + ([520] if thorough else [])
    cases = []
    for n in sizes:
        for name in ("regular", "scattered"):
            cases.append(["geo_dist", name, n])
    if thorough:
        cases.append(["geo_dist", "scattered", 777])
    for n in sizes:
        for name in ("regular", "scattered"):
            cases.append(["geo_lookup", name, n])
    for n in sizes:
        for name in ("regular", "scattered"):
            for d in (0, 1):
                cases.append(["geo_net", name, n, d])
    cases.append(["rect"])
    for n in sizes:
        cases.append(["euc", n, 3, 0.0])
    cases += [["euc", 300, 1, 1.9e6], ["euc", 300, 2, 0.0],
              ["euc", 300, 3, 1.9e6]]
    if thorough:
        cases.append(["euc", 777, 3, 0.0])
    for n in sizes:
        for d in (0, 1):
            cases.append(["euc_net", n, d])
    ctx.explore("scale", cases, chunk=1,
                desc="grids of 130..300 (thorough 520, 777) nodes: full "
                "distance matrices, lookups, 12x25 rectangular grid, "
                "weights / AWC / link distances on rings with chords")
    ctx.notes["scale_sizes"] = sizes
    ctx.notes.update({"alphabet_points": NT if thorough else NA,
                      "sub_alphabet": len(SUB),
                      "euclidean_dims": "1..4", "graphs_nodes_max": 3,
                      "angular_error_bound":
                          "min(2^-10, 8 eps32/max(sin t, sqrt eps32) + "
                          "4 eps32 pi)"})
    ctx.assumptions += [
        "coordinates of the property = the float32 values stored by the grid",
        "oracle = float64 atan2(|a x b|, a.b) on unit vectors; math.* of the "
        "platform libm is trusted to 1 ulp",
        "cos-lat weights: absolute accuracy 4*2^-23 (single-precision "
        "radians and cosine); area weighted measures propagate that error "
        "through the ratio of sums",
        "region_indices: nodes exactly on the polygon boundary and regions "
        "straddling 0 deg on a 0..360 grid are excluded (unspecified)",
        "node order of rectangular grids with 3 axes is not documented: "
        "only the point multiset is required there"]
