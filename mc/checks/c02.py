"""C02  Node-splitting invariance of all n.s.i. measures.

Bounded-exhaustive metamorphic exploration on the real library:

  split    every labelled graph (undirected <=5 nodes, directed <=4; quick:
           <=4 / <=3 plus one representative per isomorphism class on 5 / 4
           nodes) x 2 positive weight vectors x every node v x proportion in
           {0.3, 0.5}:  net  vs  net.splitted_copy(v, p)  for every nsi_*
           method of pyunicorn.core.Network found by introspection, in every
           argument pattern of refmodel/measure_table.py (link-weighted via a
           symmetric positive link attribute "w", typical weight 2.0)
  iter     iso(5) (undirected) and iso(4) (directed): every split of depth 2
           (v then v again / the new twin / any other node) x proportions
  scale    a fixed list of larger structured graphs (refmodel/measure_table
           .scale_graph: components of 9/12/15/23 nodes with interleaved
           labels plus isolated nodes, connected bipartite graphs on 21..34
           nodes, hub rings on 150/209(/300) nodes, dense directed) with
           unequal weights; a few split nodes (first, one >= N/2 in a later
           component, last, isolated, hub), one depth-2 split; Network nsi_*
           methods and the cross methods with groups of 7/8 and N/2 nodes
  cross    pyunicorn.core.InteractingNetworks: iso(n<=5) x every ordered pair
           of disjoint non-empty node groups x every node x proportion, the
           twin joins the group of its original; every nsi_cross_* /
           nsi_internal_* method

Oracle = the relation of the property text, expressed with the origin map
o: nodes of the split network -> nodes of the original network:
  global   f(G') = f(G)
  node     f(G')[i] = f(G)[o(i)]           (untouched nodes and both twins)
  pair     f(G')[i,j] = f(G)[o(i),o(j)]    whenever o(i) != o(j)
  operator sum over the descendants j of c of  M'[i,j]  =  M[o(i),c]
  g1       positions of the (extended) first node list, as `node`
splitted_copy itself is first compared with an independent construction of
the split adjacency / weights / link attributes.
"""
import hashlib

import numpy as np

from ..core import V
from ..domains import (adj, all_graphs, iso, is_connected, link_attr, weights,
                       ordered_group_pairs)
from ..compare import equal
from ..refmodel import measure_table as mt

LEVEL = "exploration"
PROPS = (0.3, 0.5)
TOL = dict(rtol=1e-9, atol=1e-12)
TOL_EV = dict(rtol=1e-6, atol=1e-8)


def _tol_ev_iter(n, W):
    """N >= 21 (see measure_table, flag simple_ev): the library shifts by
    sigma = N^2 (W^2 for the n.s.i. variant), so the accuracy ARPACK reaches
    with tol=1e-8 degrades like sigma; calibrated against dense eigh
    (3e-6 at N=21, 2e-5 at 150, 5e-4 at 300 ~ 5e-9*N^2)."""
    t = 4e-8 * max(float(n), float(W)) ** 2
    return dict(rtol=t, atol=t)


JITTER = 1e-11


def _tol(m, n, w):
    if m.has("simple_ev"):
        return TOL_EV if n <= 20 else _tol_ev_iter(
            n, sum(w) if w is not None else n)
    if m.has("cancel"):
        W = float(sum(w)) if w is not None else float(n)
        return dict(rtol=1e-9, atol=1e-12 * max(1.0, W ** 3))
    return TOL


# ---------------------------------------------------------------------------
# helpers


def _classes():
    from pyunicorn.core import Network, InteractingNetworks
    return Network, InteractingNetworks


def _clear_caches():
    """The lru caches of Cached.method keep every queried object alive."""
    for cls in _classes():
        for name in dir(cls):
            m = getattr(cls, name, None)
            cc = getattr(m, "cache_clear", None)
            if cc is not None and hasattr(m, "__wrapped__"):
                try:
                    cc()
                except TypeError:
                    pass


def _make(cls, A, directed, w, W=None):
    net = cls(adjacency=np.array(A), directed=bool(directed),
              node_weights=None if w is None else np.array(w, dtype=float),
              silence_level=3)
    if W is not None:
        net.set_link_attribute(mt.LA, np.array(W, dtype=float))
    return net


def _call(net, name, kw):
    """('ok', value) | ('exc', 'Type: msg')."""
    try:
        if "/" in name:          # "method/key": one entry of a dict result
            meth, sub = name.split("/")
            v = getattr(net, meth)(**kw)[sub]
        else:
            v = getattr(net, name)(**kw)
    except (KeyboardInterrupt, SystemExit, MemoryError):
        raise
    except BaseException as e:   # noqa  the library raises many kinds
        return ("exc", type(e).__name__ + ": " + str(e)[:100])
    if hasattr(v, "toarray"):
        v = v.toarray()
    return ("ok", v)


def _ptag(kw):
    t = []
    for k in sorted(kw):
        v = kw[k]
        if k == "key" or k == "link_attribute":
            t.append("key")
        elif k == "typical_weight":
            t.append("tw")
        elif isinstance(v, str) and v.startswith("$"):
            continue
        else:
            t.append("%s=%s" % (k, v))
    return "+".join(t)


def _split_model(A, w, W, directed, v, p):
    """Independent construction of the split network (plain loops)."""
    n = len(A)
    A2 = [[0] * (n + 1) for _ in range(n + 1)]
    W2 = [[0.0] * (n + 1) for _ in range(n + 1)]
    for i in range(n):
        for j in range(n):
            A2[i][j] = int(A[i][j])
            W2[i][j] = float(W[i][j])
    for i in range(n):
        A2[i][n] = int(A[i][v])
        A2[n][i] = int(A[v][i])
        W2[i][n] = float(W[i][v])
        W2[n][i] = float(W[v][i])
    A2[v][n] = A2[n][v] = 1
    w2 = [float(x) for x in w] + [p * float(w[v])]
    w2[v] = (1.0 - p) * float(w[v])
    return A2, w2, W2


def _check_split_copy(net2, A2, w2, W2, directed, v, viol, tag,
                      has_attr=True):
    """splitted_copy against the independent model.  Returns True if the
    split network is the one the property talks about."""
    n1 = len(A2)
    ok = True
    got_A = np.asarray(net2.adjacency)
    if got_A.shape != (n1, n1) or not np.array_equal(got_A, np.array(A2)):
        viol.append(V("Network.splitted_copy:adjacency:" + tag,
                      "split adjacency differs from the independent "
                      "construction (node %d)" % v, got_A, A2))
        ok = False
    if bool(net2.directed) != bool(directed):
        viol.append(V("Network.splitted_copy:directed-flag:" + tag, "",
                      net2.directed, directed))
        ok = False
    gw = np.asarray(net2.node_weights, dtype=float)
    if gw.shape != (n1,) or not np.allclose(gw, np.array(w2), rtol=1e-12,
                                            atol=0):
        viol.append(V("Network.splitted_copy:node-weights:" + tag,
                      "weights of the split copy (node %d)" % v, gw, w2))
        ok = False
    if ok and has_attr:
        try:
            gW = np.asarray(net2.link_attribute(mt.LA))
        except Exception as e:   # noqa
            viol.append(V("Network.splitted_copy:link-attribute:" + tag,
                          "attribute not copied: %r" % e, repr(e), W2))
            return False
        # the attribute of the twin-twin link is not fixed by the property
        # (no self-attribute exists in a simple graph) - compare the rest
        exp = np.array(W2) * np.array(A2)
        msk = np.ones((n1, n1), dtype=bool)
        msk[v, n1 - 1] = msk[n1 - 1, v] = False
        if gW.shape != (n1, n1) or not np.allclose(gW[msk], exp[msk],
                                                   rtol=1e-12, atol=0):
            viol.append(V("Network.splitted_copy:link-attribute:" + tag,
                          "link attribute of the split copy (node %d)" % v,
                          gW, exp))
            ok = False
    return ok


def _desc(origin, n0):
    d = [[] for _ in range(n0)]
    for i, o in enumerate(origin):
        d[o].append(i)
    return d


def _relate(kind, b, s, origin, n0, tol, l1=None):
    """None if the split value `s` relates to the base value `b` as the
    property demands, else a short description of the first discrepancy.
    `l1` = (base_list, split_list) for kind g1."""
    n1 = len(origin)
    if kind == "global":
        return None if equal(s, b, **tol) else "global value changed"
    b = np.asarray(b)
    s = np.asarray(s)
    if kind == "node":
        if b.shape != (n0,) or s.shape != (n1,):
            return "shape %s -> %s" % (b.shape, s.shape)
        exp = b[np.array(origin)]
        bad = ~np.isclose(s.astype(float), exp.astype(float), equal_nan=True,
                          **tol)
        if bad.any():
            i = int(np.nonzero(bad)[0][0])
            return "node %d (origin %d%s): %r != %r" % (
                i, origin[i], "" if origin.count(origin[i]) == 1 else
                ", split", s[i].item(), exp[i].item())
        return None
    if kind == "g1":
        bl, sl = l1
        if b.shape != (len(bl),) or s.shape != (len(sl),):
            return "shape %s -> %s" % (b.shape, s.shape)
        pos = {x: k for k, x in enumerate(bl)}
        exp = np.array([b[pos[origin[x]]] for x in sl])
        bad = ~np.isclose(s.astype(float), exp.astype(float), equal_nan=True,
                          **tol)
        if bad.any():
            k = int(np.nonzero(bad)[0][0])
            return "list position %d (node %d, origin %d): %r != %r" % (
                k, sl[k], origin[sl[k]], s[k].item(), exp[k].item())
        return None
    if kind == "pair":
        if b.shape != (n0, n0) or s.shape != (n1, n1):
            return "shape %s -> %s" % (b.shape, s.shape)
        o = np.array(origin)
        exp = b[np.ix_(o, o)]
        demand = o[:, None] != o[None, :]
        for i in range(n1):          # untouched diagonal entries too
            if origin.count(origin[i]) == 1:
                demand[i, i] = True
        bad = demand & ~np.isclose(s.astype(float), exp.astype(float),
                                   equal_nan=True, **tol)
        if bad.any():
            i, j = [int(x[0]) for x in np.nonzero(bad)]
            return "pair (%d,%d) origin (%d,%d): %r != %r" % (
                i, j, origin[i], origin[j], s[i, j].item(), exp[i, j].item())
        return None
    if kind == "operator":
        if b.shape != (n0, n0) or s.shape != (n1, n1):
            return "shape %s -> %s" % (b.shape, s.shape)
        d = _desc(origin, n0)
        coll = np.stack([s[:, d[c]].sum(axis=1) for c in range(n0)], axis=1)
        exp = b[np.array(origin), :]
        bad = ~np.isclose(coll, exp, equal_nan=True, **tol)
        if bad.any():
            i, c = [int(x[0]) for x in np.nonzero(bad)]
            return ("row %d: columns of the descendants of %d add up to %r, "
                    "original entry %r" % (i, c, coll[i, c].item(),
                                           exp[i, c].item()))
        return None
    raise ValueError(kind)


def _sigval(o):
    if o[0] == "exc":
        return o[1].split(":")[0]
    try:
        return np.round(np.asarray(o[1], dtype=float), 6).tolist()
    except Exception:   # noqa
        return repr(o[1])[:60]


def _nsi_methods(cls, only_own=False):
    """[(name, entry|None)] for every nsi_* method found by introspection."""
    out = []
    for name, owner, _ in mt.discover(cls, prefix="nsi_"):
        if only_own and owner != cls.__name__:
            continue
        out.append((name, mt.lookup(cls, name)))
    return out


def _groups_for(pattern, n, L1, L2):
    kw = {}
    for k, v in pattern.items():
        if v == "$L1":
            kw[k] = list(L1)
        elif v == "$L2":
            kw[k] = list(L2)
        else:
            kw[k] = v
    return kw


def _jittered(w, k=1):
    return [x * (1.0 + JITTER * k * (1 if i % 2 else -1))
            for i, x in enumerate(w)]


# Derived quantities: (input method, formula on the library's own input).
# When the input's relation already failed for the same split and the derived
# value is what its formula gives on the reported input (on both networks),
# the failure has the input's root cause and is not reported a second time.
DERIVED = {
    "nsi_global_clustering": "nsi_local_clustering",
    "nsi_cross_global_clustering": "nsi_cross_local_clustering",
    "nsi_cross_mean_degree": "nsi_cross_degree",
    "nsi_cross_edge_density": "nsi_cross_mean_degree",
}


def _derived_consistent(net, name, L1, L2, value):
    try:
        w = np.asarray(net.node_weights, dtype=float)
        if name == "nsi_global_clustering":
            c = np.asarray(net.nsi_local_clustering(), dtype=float)
            exp = float((w * c).sum() / w.sum())
        elif name == "nsi_cross_global_clustering":
            c = np.asarray(net.nsi_cross_local_clustering(list(L1), list(L2)),
                           dtype=float)
            exp = float((w[list(L1)] * c).sum() / w[list(L1)].sum())
        elif name == "nsi_cross_mean_degree":
            k = np.asarray(net.nsi_cross_degree(list(L1), list(L2)),
                           dtype=float)
            exp = float((w[list(L1)] * k).sum() / w[list(L1)].sum())
        elif name == "nsi_cross_edge_density":
            exp = float(net.nsi_cross_mean_degree(list(L1), list(L2))
                        / w[list(L2)].sum())
        else:
            return False
        return bool(np.isclose(float(value), exp, rtol=1e-9, atol=1e-12,
                               equal_nan=True))
    except Exception:   # noqa
        return False


def _drop_derived(pending, failed, base, cur, stats):
    """pending: [(violation, name, tag, (L1, L2), (S1, S2), bval, sval)]"""
    out = []
    for (v, name, tag, g0, g1, bval, sval) in pending:
        inp = DERIVED.get(name)
        if inp is not None and (inp, tag, repr(g0)) in failed and \
                _derived_consistent(base, name, g0[0], g0[1], bval) and \
                _derived_consistent(cur, name, g1[0], g1[1], sval):
            stats["derived-of-failing-input:" + name] = \
                stats.get("derived-of-failing-input:" + name, 0) + 1
            continue
        out.append(v)
    return out


# source / target groups for the Network methods that take node sets
def _st_groups(n):
    if n < 2:
        return []
    out = [([0], [n - 1]), (list(range(0, n, 2)), list(range(1, n, 2)))]
    if n >= 3:
        out.append((list(range(n)), [0, 1]))
    return out


# ---------------------------------------------------------------------------
# family: split / iter  (pyunicorn.core.Network)


def _split_sequences(n, depth):
    if depth == 1:
        return [[(v, p)] for v in range(n) for p in PROPS]
    seqs = []
    for v in range(n):
        for u in list(range(n)) + [n]:      # u == n: the new twin
            for (p1, p2) in ((0.3, 0.5), (0.5, 0.3)):
                seqs.append([(v, p1), (u, p2)])
    return seqs


def fam_split(case):
    n, directed, mask, widx, depth = case
    A = adj(n, directed, mask).tolist()
    w = weights(n, widx)
    W = link_attr(np.array(A), 1).tolist()
    return _split_engine(n, directed, A, w, W, _split_sequences(n, depth))


def _split_engine(n, directed, A, w, W, seqs, skip=()):
    Network, _ = _classes()
    viol, excluded, stats = [], {}, {}
    ev = 0
    conn = is_connected(np.array(A))
    dname = "directed" if directed else "undirected"
    has_attr = any(any(r) for r in A)    # igraph keeps no attribute w/o links
    try:
        base = _make(Network, A, directed, w, W)
    except ZeroDivisionError:
        # link density N(N-1) of a single node (older trees)
        return {"viol": [], "evals": 0, "trivial": True,
                "excluded": {"single-node network cannot be constructed": 1}}
    methods = _nsi_methods(Network)
    # plan: (name, kind, kwargs, tag, tol, groups)
    plan = []
    for name, m in methods:
        if m is None:
            stats["unclassified:" + name] = 1
            continue
        if name in skip:
            excluded["too slow at this size: " + name] = 1
            continue
        if m.kind == "histogram":
            excluded["histogram output (bin counts are not n.s.i.)"] = \
                excluded.get("histogram output (bin counts are not n.s.i.)",
                             0) + 1
            continue
        if m.has("und") and directed:
            excluded["undirected only: " + name] = 1
            continue
        if m.has("simple_ev") and not conn:
            excluded["connected only: " + name] = 1
            continue
        tol = _tol(m, n, w)
        for pat in m.patterns:
            if not has_attr and mt.LA in pat.values():
                r = "link attribute cannot exist on an edgeless network"
                excluded[r] = excluded.get(r, 0) + 1
                continue
            if any(v in ("$L1", "$L2") for v in pat.values()):
                for gi, (S, T) in enumerate(_st_groups(n)):
                    plan.append((name, m.kind, pat, _ptag(pat), tol, (S, T)))
            else:
                plan.append((name, m.kind, pat, _ptag(pat), tol, None))
    # the n.s.i. entries of dict-valued methods (distance_based_measures):
    # with an explicit replacement for infinite distances always, with the
    # default (the number of nodes, which a split changes) on connected
    # networks only
    all_reachable = bool(np.isfinite(np.asarray(
        base.path_lengths(), dtype=float)).all())
    for meth in mt.dict_methods(Network):
        m = mt.lookup(Network, meth)
        if meth in skip:
            continue
        for sub, kind in sorted(m.sub.items()):
            if not sub.startswith("nsi_"):
                continue
            for pat in m.patterns:
                if not pat and not all_reachable:
                    continue
                plan.append(("%s/%s" % (meth, sub), kind, pat, _ptag(pat),
                             _tol(m, n, w), None))
    base_val = {}
    for k, (name, kind, pat, tag, tol, grp) in enumerate(plan):
        kw = _groups_for(pat, n, *(grp or ((), ())))
        base_val[k] = _call(base, name, kw)
        ev += 1
    sig = hashlib.sha1(repr([_sigval(base_val[k]) for k in sorted(base_val)]
                            ).encode()).hexdigest()[:16]
    jit = {}       # lazily built jittered twins of the base network

    def ill_conditioned(k):
        """Does a 1e-11 relative change of the node weights move the base
        value beyond the tolerance?  Then float rounding of w*(1-p)+w*p
        decides and the comparison is meaningless at this input."""
        name, kind, pat, tag, tol, grp = plan[k]
        kw = _groups_for(pat, n, *(grp or ((), ())))
        for s in (1, -1):
            if s not in jit:
                jit[s] = _make(Network, A, directed, _jittered(w, s), W)
            o = _call(jit[s], name, kw)
            if o[0] != base_val[k][0]:
                return True
            if o[0] == "ok" and not equal(o[1], base_val[k][1], **tol):
                return True
        return False

    for seq in seqs:
        cur, curA, curw, curW = base, A, w, W
        origin = list(range(n))
        good = True
        # input class of this split: is a split node isolated in the
        # original graph / is the graph connected
        split_origins = [v if v < n else seq[0][0] for (v, _) in seq]
        iso_split = any(not any(A[o]) and not any(r[o] for r in A)
                        for o in split_origins)
        dtag = dname + ("+isolated-node" if iso_split else
                        "+connected" if conn else "+disconnected")
        for (v, p) in seq:
            try:
                nxt = cur.splitted_copy(node=v, proportion=p)
            except Exception as e:   # noqa
                viol.append(V("Network.splitted_copy:raises:" + dname,
                              "node %d proportion %s: %r" % (v, p, e),
                              repr(e), "a network"))
                good = False
                break
            A2, w2, W2 = _split_model(curA, curw, curW, directed, v, p)
            ev += 1
            if not _check_split_copy(nxt, A2, w2, W2, directed, v, viol,
                                     dname, has_attr):
                good = False
                break
            origin = origin + [origin[v]]
            cur, curA, curw, curW = nxt, A2, w2, W2
        if not good:
            continue
        pending, failed = [], set()
        for k, (name, kind, pat, tag, tol, grp) in enumerate(plan):
            b = base_val[k]
            if b[0] == "exc":
                r = "raises on the original network: " + b[1].split(":")[0]
                excluded[r] = excluded.get(r, 0) + 1
                continue
            if grp is not None:
                d = _desc(origin, n)
                S = [i for x in grp[0] for i in d[x]]
                T = [i for x in grp[1] for i in d[x]]
                kw = _groups_for(pat, len(origin), S, T)
            else:
                kw = dict(pat)
            s = _call(cur, name, kw)
            ev += 1
            key = "Network.%s[%s]" % (name, tag)
            if s[0] == "exc":
                if ill_conditioned(k):
                    r = "ill-conditioned: " + name
                    excluded[r] = excluded.get(r, 0) + 1
                    continue
                viol.append(V(key + ":raises-after-split:" + dtag,
                              "splits %s: defined on the original network, "
                              "raises on the split one" % (seq,), s[1],
                              _sigval(b)))
                continue
            try:
                msg = _relate(kind, b[1], s[1], origin, n, tol)
            except Exception as e:   # noqa  (ragged / non-numeric output)
                msg = "outputs not comparable: %r" % (e,)
            if msg is None:
                stats["relations_held"] = stats.get("relations_held", 0) + 1
                continue
            if ill_conditioned(k):
                r = "ill-conditioned: " + name
                excluded[r] = excluded.get(r, 0) + 1
                continue
            failed.add((name, tag, repr(((), ()))))
            pending.append((V(key + ":not-nsi:" + dtag,
                              "splits (node, proportion) %s, weights %s: %s"
                              % (seq, w, msg), s[1], b[1]),
                            name, tag, ((), ()), ((), ()), b[1], s[1]))
        viol += _drop_derived(pending, failed, base, cur, stats)
    _clear_caches()
    return {"viol": viol, "evals": ev, "excluded": excluded, "stats": stats,
            "trivial": False, "sig": sig}


# ---------------------------------------------------------------------------
# family: cross  (pyunicorn.core.InteractingNetworks)


def _dist_matrix(A):
    n = len(A)
    INF = float("inf")
    D = [[0 if i == j else (1 if A[i][j] else INF) for j in range(n)]
         for i in range(n)]
    for k in range(n):
        for i in range(n):
            for j in range(n):
                if D[i][k] + D[k][j] < D[i][j]:
                    D[i][j] = D[i][k] + D[k][j]
    return D


def fam_cross(case):
    n, mask, widx, bip_only = case
    A = adj(n, False, mask).tolist()
    w = weights(n, widx)
    W = link_attr(np.array(A), 1).tolist()
    pairs = ordered_group_pairs(n, allow_partial=not bip_only)
    return _cross_engine(n, A, w, W, pairs,
                         [(v, p) for v in range(n) for p in PROPS])


def _cross_engine(n, A, w, W, pairs, splits):
    _, IN = _classes()
    viol, excluded, stats = [], {}, {}
    ev = 0
    directed = False
    D = _dist_matrix(A)
    base = _make(IN, A, directed, w, W)
    methods = [(nm, m) for nm, m in _nsi_methods(IN, only_own=True)]
    plan = []     # (name, kind, pattern, L1, L2, single)
    singles = sorted(set(tuple(p[0]) for p in pairs))
    for name, m in methods:
        if m is None:
            stats["unclassified:" + name] = 1
            continue
        for pat in m.patterns:
            if "$L2" in pat.values():
                for (L1, L2) in pairs:
                    plan.append((name, m.kind, pat, L1, L2))
            else:
                for L1 in singles:
                    plan.append((name, m.kind, pat, list(L1), None))
    base_val = []
    for (name, kind, pat, L1, L2) in plan:
        base_val.append(_call(base, name, _groups_for(pat, n, L1, L2 or ())))
        ev += 1
    sig = hashlib.sha1(repr([_sigval(o) for o in base_val]).encode()
                       ).hexdigest()[:16]
    jit = {}

    def ill_conditioned(k):
        name, kind, pat, L1, L2 = plan[k]
        kw = _groups_for(pat, n, L1, L2 or ())
        for s in (1, -1):
            if s not in jit:
                jit[s] = _make(IN, A, directed, _jittered(w, s), W)
            o = _call(jit[s], name, kw)
            if o[0] != base_val[k][0]:
                return True
            if o[0] == "ok" and not equal(o[1], base_val[k][1], **TOL):
                return True
        return False

    for (v, p) in splits:
        if True:
            try:
                cur = base.splitted_copy(node=v, proportion=p)
            except Exception as e:   # noqa
                viol.append(V("InteractingNetworks.splitted_copy:raises",
                              repr(e), repr(e), "a network"))
                continue
            if not isinstance(cur, IN):
                # splitted_copy returns a plain Network: rebuild the split
                # network as InteractingNetworks from what it reports
                stats["splitted_copy returns base-class Network"] = \
                    stats.get("splitted_copy returns base-class Network",
                              0) + 1
                A2, w2, W2 = _split_model(A, w, W, directed, v, p)
                if not _check_split_copy(cur, A2, w2, W2, directed, v, viol,
                                         "undirected", any(any(r) for r in A)):
                    continue
                cur = _make(IN, np.asarray(cur.adjacency), directed,
                            np.asarray(cur.node_weights),
                            np.asarray(cur.link_attribute(mt.LA))
                            if any(any(r) for r in A) else None)
            origin = list(range(n)) + [v]
            pending, failed = [], set()
            for k, (name, kind, pat, L1, L2) in enumerate(plan):
                b = base_val[k]
                if b[0] == "exc":
                    r = "raises on the original network: " + \
                        b[1].split(":")[0]
                    excluded[r] = excluded.get(r, 0) + 1
                    continue
                S1 = list(L1) + ([n] if v in L1 else [])
                S2 = None if L2 is None else \
                    list(L2) + ([n] if v in L2 else [])
                kw = _groups_for(pat, n + 1, S1, S2 or ())
                s = _call(cur, name, kw)
                ev += 1
                tgt = name
                L2e = L2 if L2 is not None else L1
                disc = any(D[i][j] == float("inf") for i in L1 for j in L2e)
                dtag = "disconnected-pair" if disc else "connected-pair"
                if name in mt.DELEGATES:
                    # same root cause as the delegate called with (L, L)?
                    dn = mt.DELEGATES[name]
                    ob = _call(base, dn, {"node_list1": list(L1),
                                          "node_list2": list(L1)})
                    os_ = _call(cur, dn, {"node_list1": S1,
                                          "node_list2": S1})
                    if ob[0] == "ok" and os_[0] == "ok" and s[0] == "ok" \
                            and equal(ob[1], b[1], **TOL) and \
                            equal(os_[1], s[1], **TOL):
                        tgt = dn
                key = "InteractingNetworks.%s" % tgt
                if s[0] == "exc":
                    if ill_conditioned(k):
                        r = "ill-conditioned: " + name
                        excluded[r] = excluded.get(r, 0) + 1
                        continue
                    viol.append(V(key + ":raises-after-split:" + dtag,
                                  "node %d p=%s groups %s %s" % (
                                      v, p, L1, L2),
                                  s[1], _sigval(b)))
                    continue
                try:
                    msg = _relate(kind, b[1], s[1], origin, n, TOL,
                                  l1=(list(L1), S1))
                except Exception as e:   # noqa
                    msg = "outputs not comparable: %r" % (e,)
                if msg is None:
                    stats["relations_held"] = \
                        stats.get("relations_held", 0) + 1
                    continue
                if ill_conditioned(k):
                    r = "ill-conditioned: " + name
                    excluded[r] = excluded.get(r, 0) + 1
                    continue
                g0 = (list(L1), list(L2 or ()))
                failed.add((name, "", repr(g0)))
                pending.append((V(
                    key + ":not-nsi:" + dtag,
                    "%s: split node %d (p=%s), groups %s / %s, weights %s: "
                    "%s" % (name, v, p, L1, L2, w, msg), s[1], b[1]),
                    name, "", g0, (S1, S2 or []), b[1], s[1]))
            viol += _drop_derived(pending, failed, base, cur, stats)
    _clear_caches()
    return {"viol": viol, "evals": ev, "excluded": excluded, "stats": stats,
            "trivial": n < 2, "sig": sig}


# ---------------------------------------------------------------------------
# family: scale  (fixed larger structured inputs, same relations)

SCALE_SKIP_BIG = ("nsi_arenas_betweenness",)     # 3 patterns x N sparse solves


def _scale_input(name):
    n, edges, directed = mt.scale_graph(name)
    A = mt.scale_adjacency(n, edges, directed)
    w = mt.scale_weights(n)
    W = link_attr(np.array(A), 1).tolist()
    return n, directed, A, w, W


def _scale_split_nodes(n, A):
    """A few nodes: the first, one with index >= 0.5*N that is not in the
    component of node 0 if there is one (a later 'part'), the highest
    numbered, an isolated one if any, the best connected one."""
    U = (np.array(A) + np.array(A).T) > 0
    seen, st = {0}, [0]
    while st:
        x = st.pop()
        for y in np.nonzero(U[x])[0]:
            if int(y) not in seen:
                seen.add(int(y))
                st.append(int(y))
    late = [i for i in range(n // 2, n) if i not in seen and U[i].any()]
    isolated = [i for i in range(n) if not U[i].any()]
    hub = int(np.argmax(U.sum(axis=0)))
    out = [0, late[0] if late else (n // 2 + 1), n - 1]
    if isolated:
        out.append(isolated[-1])
    if hub not in out:
        out.append(hub)
    return out


def fam_scale(case):
    name, what = case[:2]
    n, directed, A, w, W = _scale_input(name)
    if what == "cross":
        ev = list(range(0, n, 2))
        od = list(range(1, n, 2))
        pairs = [(ev[:7], od[:8]), (od[:8], ev[:7]),
                 (list(range(n // 2)), list(range(n // 2, n))),
                 (list(range(0, n, 3)), list(range(1, n, 3))),
                 ([n - 1], list(range(0, n - 1)))]
        nodes = _scale_split_nodes(n, A)[:4]
        r = _cross_engine(n, A, w, W, pairs,
                          [(v, 0.3) for v in nodes] + [(n - 1, 0.5)])
        return r
    nodes = _scale_split_nodes(n, A)
    seqs = [[(v, 0.3)] for v in nodes] + [[(nodes[1], 0.5)]]
    if n < 100:
        seqs.append([(nodes[1], 0.3), (n, 0.5)])       # split the twin again
        seqs.append([(n - 1, 0.5), (0, 0.3)])
    heavy_ok = len(case) > 2 and case[2] == "all" and n < 250
    return _split_engine(n, directed, A, w, W, seqs,
                         skip=SCALE_SKIP_BIG if n >= 100 and not heavy_ok
                         else ())


FAMILIES = {"split": fam_split, "iter": fam_split, "cross": fam_cross,
            "scale": fam_scale}


# ---------------------------------------------------------------------------


def run(ctx):
    thorough = ctx.tier == "thorough"
    Network, IN = _classes()
    und_n, dir_n = (5, 4) if thorough else (4, 3)
    ctx.rule = (
        "split: every labelled undirected graph on 1..%d nodes and every "
        "labelled directed graph on 1..%d nodes%s x weight vectors 1 and 2 of "
        "domains.WEIGHTS x every node x proportions %s; iter: iso(5) "
        "undirected and iso(%d) directed x every depth-2 split sequence (v, "
        "then v again / the new twin / any other node) x proportion pairs "
        "(0.3,0.5),(0.5,0.3); cross: iso(2..5) undirected x every ordered "
        "pair of disjoint non-empty node groups%s x every node x "
        "proportions.  Every case is non-trivial (a split always changes N, "
        "the weights and the adjacency); distinct = distinct vectors of the "
        "original network's values over all measures and argument patterns."
        % (und_n, dir_n,
           "" if thorough else " plus iso(5) undirected / iso(4) directed",
           PROPS, 4 if thorough else 3,
           "" if thorough else " (n=5: bipartitions only)"))
    cases = []
    for n in range(1, und_n + 1):
        cases += [(n, False, m, wi, 1) for (_, _, m) in all_graphs(n, False)
                  for wi in (1, 2)]
    if not thorough:
        cases += [(5, False, m, wi, 1) for (_, _, m) in iso(5, False)
                  for wi in (1, 2)]
    for n in range(1, dir_n + 1):
        cases += [(n, True, m, wi, 1) for (_, _, m) in all_graphs(n, True)
                  for wi in (1, 2)]
    if not thorough:
        cases += [(4, True, m, wi, 1) for (_, _, m) in iso(4, True)
                  for wi in (1, 2)]
    cases.sort(key=lambda c: (c[0], bin(c[2]).count("1")))
    # self-test: the same case evaluated twice gives identical observations
    probe = [c for c in cases if c[0] == 3 and not c[1]][-1]
    a, b = fam_split(probe), fam_split(probe)
    ctx.selftest_same(
        a["sig"] == b["sig"] and a["evals"] == b["evals"] and
        [v["key"] for v in a["viol"]] == [v["key"] for v in b["viol"]],
        "fam_split%r" % (probe,))
    ctx.explore("split", cases, desc="net vs net.splitted_copy(v, p), every "
                "nsi_* method of Network")
    cases = [(5, False, m, wi, 2) for (_, _, m) in iso(5, False)
             for wi in ((1, 2) if thorough else (1,))]
    dn = 4 if thorough else 3
    cases += [(dn, True, m, 1, 2) for (_, _, m) in iso(dn, True)]
    ctx.explore("iter", cases, desc="iterated splits of depth 2")
    cases = []
    for n in range(2, 6):
        for (_, _, m) in iso(n, False):
            for wi in (1, 2):
                cases.append((n, m, wi, (not thorough) and n == 5))
    ctx.explore("cross", cases, desc="InteractingNetworks nsi_cross_* / "
                "nsi_internal_* under node splitting")
    names = mt.SCALE_MID + mt.SCALE_MID_THOROUGH + \
        mt.SCALE_BIG + (mt.SCALE_BIG_THOROUGH if thorough else [])
    cases = [(nm, "split", "all" if thorough else "cheap") for nm in names]
    cases += [(nm, "cross") for nm in names
              if not mt.scale_graph(nm)[2] and 16 <= mt.scale_graph(nm)[0]
              < 100]
    ctx.explore("scale", cases, chunk=1, desc="fixed larger structured "
                "graphs (components of 9/12/15/23 nodes with interleaved "
                "labels and isolated nodes, connected bipartite N>=21, "
                "N=150/209/300, dense directed), unequal weights; a few "
                "split nodes incl. a later component and the last node")
    ctx.notes["scale_inputs"] = names
    found = [nm for nm, _ in _nsi_methods(Network)] + \
        [nm for nm, _ in _nsi_methods(IN, only_own=True)]
    uncl = [nm for nm, m in _nsi_methods(Network) if m is None] + \
        [nm for nm, m in _nsi_methods(IN, only_own=True) if m is None]
    ctx.notes.update({
        "undirected_nmax": und_n, "directed_nmax": dir_n,
        "nsi_methods_found": len(found), "nsi_methods": found,
        "unclassified": uncl, "proportions": list(PROPS),
        "typical_weight": mt.TW, "link_attribute": mt.LA})
    ctx.assumptions += [
        "a measure is 'documented as n.s.i.' iff its name starts with nsi_",
        "the attribute of the twin-twin link is not prescribed by the "
        "property (splitted_copy copies the self-attribute, which "
        "link_attribute() reports as 0)",
        "pair entries whose two indices descend from the same split node "
        "are not demanded (only untouched pairs and twin rows/columns are)",
        "a mismatch is discarded as ill-conditioned only if a 1e-11 relative "
        "change of the node weights moves the *original* network's value "
        "beyond the tolerance (division by a quantity that is exactly 0 in "
        "the corrected formulas)",
        "InteractingNetworks n.s.i. measures are exercised on undirected "
        "networks only (class docstring)"]
