"""C07  Recurrence matrices are exactly the thresholded distance matrices.

Bounded-exhaustive enumeration on the real constructors / kernels:
  rp      every scalar series of length 1..L over the dyadic alphabet
          {0, .5, 1, 2}, every 2-D series of length <=3 over {0,1}^2, every
          NaN pattern (length <=4, missing_values=True), embeddings
          {none,(2,1),(2,2),(3,1)}, the three metrics, thresholds that decide
          strictness (every realised distance, every midpoint, 0, large),
          threshold_std, global / local rates {0,.2,.5,.8,1}, adaptive
          neighbourhood sizes 1..N-2; RecurrencePlot and RecurrenceNetwork
  cross   CrossRecurrencePlot for all pairs of series, unequal lengths
  joint   JointRecurrencePlot / JointRecurrenceNetwork for all pairs of equally
          long series, lags of either sign, metric pairs, embeddings
  isrn    InterSystemRecurrenceNetwork for all pairs, unequal lengths,
          with and without embedding
  scale   a fixed list of structured dyadic series of 130, 150, 209, 300
          samples (row blocks of 128/256, flat indices >= 32768): every way
          of choosing the threshold, embeddings, three metrics, NaN around
          positions 0/128/256/end; cross (150,209); joint lag +-40;
          inter-system (130,90); vectorised oracle on the stored values
Oracle: refmodel/recurrence.py (Fractions on the values as stored).  Every RQA
method is called on every object built ("applicable"): an explicit
NotImplementedError is counted as excluded, any other exception is a violation.
The line-length *values* belong to C08.
"""
import hashlib
import itertools
import os
import random

import numpy as np

from ..core import V
from ..refmodel import recurrence as rr

LEVEL = "exploration"
F64 = dict(rtol=1e-9, atol=1e-12)
ALPHA = [0.0, 0.5, 1.0, 2.0]
ALPHA3 = [0.0, 0.5, 2.0]
EMBS = [None, (2, 1), (2, 2), (3, 1)]
RATES = [0.0, 0.2, 0.5, 0.8, 1.0]
STD_MENU = [0.5, 1.0, 2.0]
METRICS = rr.METRICS
NAN = float("nan")


# --------------------------------------------------------------------------
# helpers

def _np(series):
    """JSON-friendly series (None = missing) -> float array."""
    return np.array([[NAN if v is None else v for v in r]
                     if isinstance(r, (list, tuple)) else
                     (NAN if r is None else r) for r in series], dtype=float)


def _is_scalar(series):
    return not any(isinstance(r, (list, tuple)) for r in series)


def _n_embedded(n, emb):
    return n if not emb else n - (emb[0] - 1) * emb[1]


def _exc(e):
    return "%s: %s" % (type(e).__name__, str(e)[:100])


class Acc:
    """Per-case accumulator."""

    def __init__(self):
        self.viol, self.excl, self.stats = [], {}, {}
        self.evals = 0
        self.h = hashlib.sha1()
        self.count = {}

    def budget(self, what, picks=(0, 3)):
        """True for the first and the fourth object of a kind in this case
        (the expensive per-object extras are run on those)."""
        c = self.count.get(what, 0)
        self.count[what] = c + 1
        return c in picks

    def v(self, key, msg, obs=None, exp=None):
        self.viol.append(V(key, msg, obs, exp))

    def x(self, reason, n=1):
        self.excl[reason] = self.excl.get(reason, 0) + n

    def s(self, name, n=1):
        self.stats[name] = self.stats.get(name, 0) + n

    def see(self, *objs):
        for o in objs:
            self.h.update(repr(o).encode())

    def result(self, trivial):
        return {"viol": self.viol, "evals": self.evals, "excluded": self.excl,
                "stats": self.stats, "trivial": bool(trivial),
                "sig": self.h.hexdigest()}


def _mat(M):
    return np.asarray(M).astype(int)


def _classify(R, exp, boundary, miss_r, miss_c):
    """Name the class of a mismatch between a library matrix and the oracle.
    `boundary(i, j)` tells whether dist(i,j) equals the threshold exactly."""
    R, exp = _mat(R), _mat(exp)
    if R.shape != exp.shape:
        return "shape"
    idx = np.argwhere(R != exp)
    if all((miss_r[i] or miss_c[j]) for i, j in idx):
        return "missing-recurrent"
    if boundary is not None and all(
            R[i, j] == 1 and boundary(i, j) for i, j in idx):
        return "boundary-not-strict"
    return "value"


def _at(K, bk):
    if bk is None:
        return None
    return lambda i, j: K[i][j] == bk


# --------------------------------------------------------------------------
# "every quantification method is applicable"

BASE = ["recurrence_rate", "recurrence_probability", "diagline_dist",
        "vertline_dist", "white_vertline_dist"]
DERIVED = [
    ("max_diaglength", ("diagline_dist",), ()),
    ("determinism", ("diagline_dist",), ()),
    ("determinism", ("diagline_dist",), (1,)),
    ("average_diaglength", ("diagline_dist",), ()),
    ("average_diaglength", ("diagline_dist",), (1,)),
    ("diag_entropy", ("diagline_dist",), ()),
    ("diag_entropy", ("diagline_dist",), (1,)),
    ("resample_diagline_dist", ("diagline_dist",), (3,)),
    ("max_vertlength", ("vertline_dist",), ()),
    ("laminarity", ("vertline_dist",), ()),
    ("laminarity", ("vertline_dist",), (1,)),
    ("average_vertlength", ("vertline_dist",), ()),
    ("trapping_time", ("vertline_dist",), ()),
    ("trapping_time", ("vertline_dist",), (1,)),
    ("vert_entropy", ("vertline_dist",), ()),
    ("vert_entropy", ("vertline_dist",), (1,)),
    ("resample_vertline_dist", ("vertline_dist",), (3,)),
    ("max_white_vertlength", ("white_vertline_dist",), ()),
    ("average_white_vertlength", ("white_vertline_dist",), ()),
    ("mean_recurrence_time", ("white_vertline_dist",), ()),
    ("white_vert_entropy", ("white_vertline_dist",), ()),
    ("rqa_summary", ("recurrence_rate", "diagline_dist", "vertline_dist"),
     ()),
]


def _rqa(obj, cls, tag, acc, size_mismatch=False):
    """Call every RQA method (on the first and the fourth object of each
    (class, variant) of a case: applicability depends on the class and its
    size bookkeeping, the values are C08's business).  Exceptions of methods that only forward the
    exception of a base histogram are attributed to that histogram.  On an
    object whose N disagrees with its matrix (reported separately) all
    failures are one consequence of that and get one key."""
    if not acc.budget(("rqa", cls, tag)):
        return []
    random.seed(0)
    failed = {}
    out = []

    def call(name, args):
        acc.evals += 1
        try:
            r = getattr(obj, name)(*args)
            acc.s("rqa_calls_ok")
            return r
        except NotImplementedError:
            acc.x("%s.%s: NotImplementedError" % (cls, name))
            failed[name] = "ni"
        except Exception as e:   # noqa
            failed[name] = "exc"
            if size_mismatch:
                key = "%s.rqa:raises:size-mismatch:%s" % (cls, tag)
            else:
                key = "%s.%s:raises:%s" % (cls, name, tag)
            acc.v(key, "RQA method %s%r is not applicable: %s" % (
                name, tuple(args), _exc(e)), _exc(e), "no exception")
        return None

    for name in BASE:
        r = call(name, ())
        if r is not None and name.endswith("_dist"):
            out.append(tuple(int(v) for v in np.asarray(r).ravel()))
    for name, deps, args in DERIVED:
        bad = [failed[d] for d in deps if d in failed]
        if bad:
            if "ni" in bad and "exc" not in bad:
                acc.x("%s.%s: NotImplementedError" % (cls, name))
            continue
        call(name, args)
    return out


def _sizes(obj, cls, mat, tag, acc, cross=False):
    """N (and M) must describe the matrix; recurrence_rate() = sum/size.
    Returns True when the sizes are inconsistent."""
    mat = np.asarray(mat)
    acc.evals += 1
    want = (obj.N, obj.M) if cross else (obj.N, obj.N)
    if mat.shape != want:
        acc.v("%s.N:size-mismatch:%s" % (cls, tag),
              "N%s = %r but the matrix has shape %r (recurrence_rate() and "
              "all line statistics use N)" % (
                  "/M" if cross else "", want, mat.shape),
              list(want), list(mat.shape))
        return True
    return False


def _rate_value(obj, cls, mat, tag, acc):
    mat = np.asarray(mat)
    if mat.size == 0:
        acc.x("recurrence_rate of an empty plot")
        return
    acc.evals += 1
    try:
        got = obj.recurrence_rate()
    except Exception:   # reported by _rqa
        return
    exp = float(mat.sum()) / mat.size
    if not np.isclose(got, exp, **F64):
        acc.v("%s.recurrence_rate:value:%s" % (cls, tag),
              "recurrence_rate() != sum(R)/size", got, exp)


# --------------------------------------------------------------------------
# family rp: RecurrencePlot / RecurrenceNetwork

def _mk_rp(cls, arr, metric, kw, **par):
    from pyunicorn import timeseries as ts
    return getattr(ts, cls)(arr, metric=metric, silence_level=3, **kw, **par)


def _network(arr, metric, kw, par, variant, R_plot, missing, acc,
             directed=False):
    """RecurrenceNetwork: adjacency = its recurrence matrix minus the diagonal
    (missing states are removed, as the constructor documents); its R is the
    R of the equally parametrised plot (checked against the oracle there)."""
    keep = [i for i, m in enumerate(missing) if not m]
    tag = variant + ("+mv" if any(missing) else "")
    acc.evals += 1
    try:
        net = _mk_rp("RecurrenceNetwork", arr, metric, kw, **par)
    except Exception as e:   # noqa
        if len(keep) == 0:
            acc.x("network without any non-missing state")
        elif len(keep) == 1:
            acc.v("Network.__init__:raises:single-node",
                  "a recurrence network of a single state vector cannot be "
                  "built: " + _exc(e), _exc(e), [[0]])
        else:
            acc.v("RecurrenceNetwork.__init__:raises:" + tag, _exc(e),
                  _exc(e), "a network")
        return
    A = _mat(net.adjacency)
    R = _mat(net.R)
    if R.shape != R_plot.shape or not np.array_equal(R, R_plot):
        acc.v("RecurrenceNetwork.R:differs-from-plot:" + tag,
              "%s %r" % (metric, par), R, R_plot)
    want = _mat(rr.no_diagonal(R.tolist()))[np.ix_(keep, keep)] if keep \
        else np.zeros((0, 0), int)
    if A.shape != want.shape or not np.array_equal(A, want):
        loops = A.shape == want.shape and bool(np.diag(A).any())
        acc.v("RecurrenceNetwork.adjacency:%s:%s" % (
            "self-loops" if loops else "value",
            "mv" if any(missing) else "plain"),
              "%s %r: adjacency is not the recurrence matrix without its "
              "diagonal" % (metric, par), A, want)
    if bool(net.directed) != directed:
        acc.v("RecurrenceNetwork.directed:value:" + tag, "", net.directed,
              directed)
    bad = _sizes(net, "RecurrenceNetwork", net.R,
                 "missing_values" if any(missing) else "plain", acc)
    if not bad:
        _rate_value(net, "RecurrenceNetwork", net.R, tag, acc)
    acc.see(_rqa(net, "RecurrenceNetwork", tag, acc, bad))
    # the setter route: re-applying the same rule through the public setter
    # must give the same R (diagonal included) and the same adjacency
    if len(par) == 1 and not any(missing):
        (k, val), = par.items()
        setter = SETTERS.get(k)
        if setter is not None:
            acc.evals += 1
            try:
                getattr(net, setter)(val)
            except Exception as e:   # noqa
                acc.v("RecurrenceNetwork.%s:raises:%s" % (setter, tag),
                      _exc(e), _exc(e), "re-thresholded network")
                return
            R2 = _mat(net.recurrence_matrix())
            if R2.shape != R_plot.shape or not np.array_equal(R2, R_plot):
                acc.v("RecurrenceNetwork.%s:R-differs-from-plot:%s" % (
                    setter, tag), "%s %r: after the setter R is not the "
                    "matrix of the equally parametrised plot" % (metric,
                                                                   par),
                      R2, R_plot)
            A2 = _mat(net.adjacency)
            if A2.shape != want.shape or not np.array_equal(A2, want):
                acc.v("RecurrenceNetwork.%s:adjacency:%s" % (setter, tag),
                      "%s %r: after the setter the adjacency is not R "
                      "without its diagonal" % (metric, par), A2, want)
            if k == "adaptive_neighborhood_size" and len(R_plot) >= 3:
                # the optional processing order is a node list: plot and
                # network must use it alike
                n_ = len(R_plot)
                order = np.array(list(range(n_ - 1, -1, -1)))
                acc.evals += 1
                try:
                    rp = _mk_rp("RecurrencePlot", arr, metric, kw, **par)
                    rp.set_adaptive_neighborhood_size(val, order.copy())
                    net.set_adaptive_neighborhood_size(val, order.copy())
                    Rp = _mat(rp.recurrence_matrix())
                    Rn = _mat(net.recurrence_matrix())
                    if Rp.shape != Rn.shape or not np.array_equal(Rp, Rn):
                        acc.v("RecurrenceNetwork.set_adaptive_neighborhood_"
                              "size:order-ignored", "%s size %r order %s: "
                              "R of the network differs from R of the plot "
                              "for the same processing order" % (
                                  metric, val, order.tolist()), Rn, Rp)
                except Exception as e:   # noqa
                    acc.v("RecurrenceNetwork.set_adaptive_neighborhood_size:"
                          "raises:order", _exc(e), _exc(e), "a network")


SETTERS = {"threshold": "set_fixed_threshold",
           "threshold_std": "set_fixed_threshold_std",
           "recurrence_rate": "set_fixed_recurrence_rate",
           "local_recurrence_rate": "set_fixed_local_recurrence_rate",
           "adaptive_neighborhood_size": "set_adaptive_neighborhood_size"}


def _plot(arr, metric, kw, par, variant, exp, boundary, missing, acc,
          network=True, directed=False):
    """Build a RecurrencePlot with parameters `par`, compare R with `exp`."""
    tag = variant + ("+mv" if any(missing) else "")
    acc.evals += 1
    rp = _mk_rp("RecurrencePlot", arr, metric, kw, **par)
    R = _mat(rp.recurrence_matrix())
    acc.see(metric, par, R.tolist())
    if R.shape != _mat(exp).shape or not np.array_equal(R, _mat(exp)):
        acc.v("RecurrencePlot.recurrence_matrix:%s:%s" % (
            _classify(R, exp, boundary, missing, missing), tag),
              "%s, %r: R is not the thresholded distance matrix" % (
                  metric, par), R, exp)
    bad = _sizes(rp, "RecurrencePlot", R, tag, acc)
    if not bad:
        _rate_value(rp, "RecurrencePlot", R, tag, acc)
    acc.see(_rqa(rp, "RecurrencePlot", tag, acc, bad))
    if network and (metric == "supremum" or
                    acc.budget(("net", metric, variant))):
        _network(arr, metric, kw, par, variant, R, missing, acc, directed)
    return R


def _missing_rule(arr, metric, kw, par, variant, missing, acc):
    """With NaN present the quantile is not defined by the property; only
    'never recurrent when either state holds a missing value' is judged."""
    acc.evals += 1
    try:
        rp = _mk_rp("RecurrencePlot", arr, metric, kw, **par)
    except Exception:   # adaptive kernel on NaN distances: not judged
        acc.x("%s with missing values raised (not judged)" % variant)
        return
    R = _mat(rp.recurrence_matrix())
    acc.see(metric, par, R.tolist())
    m = np.array(missing, dtype=bool)
    if R.shape == (len(m), len(m)) and (R[m, :].any() or R[:, m].any()):
        acc.v("RecurrencePlot.recurrence_matrix:missing-recurrent:%s+mv" %
              variant, "%s, %r: a state holding a missing value is marked "
              "recurrent (missing_values=True)" % (metric, par), R,
              "zero rows/columns %s" % np.nonzero(m)[0].tolist())
    acc.x("%s: quantile of distances containing NaN (only the missing-value "
          "rule is judged)" % variant)


def fam_rp(case):
    x, emb, mv = case["x"], case.get("emb"), bool(case.get("mv"))
    acc = Acc()
    dim, tau = emb if emb else (None, None)
    X = rr.states(x, dim, tau)
    n = len(X)
    arr = _np(x)
    kw = {}
    if emb:
        kw.update(dim=dim, tau=tau)
    if mv:
        kw["missing_values"] = True
    missing = [rr.has_nan(s) for s in X]
    anynan = any(missing)
    scalar = _is_scalar(x)
    for metric in METRICS:
        K = rr.key_matrix(X, X, metric)
        # -- state vectors and distance kernel
        rp = _mk_rp("RecurrencePlot", arr, metric, kw, threshold=1024.0)
        acc.evals += 2
        E = np.asarray(rp.embedding)
        want = np.array([[NAN if v is None else float(v) for v in s]
                         for s in X], dtype=float).reshape(n, -1)
        if E.shape != want.shape or not np.array_equal(E, want,
                                                       equal_nan=True):
            acc.v("RecurrencePlot.embedding:value:" + (
                "embedded" if emb else "plain"), "", E, want)
            continue
        D = np.asarray(rp.distance_matrix(metric))
        Dexp = np.array([[rr.key_float(k, metric) for k in row] for row in K],
                        dtype=float).reshape(n, n)
        ok = D.shape == Dexp.shape
        if ok:
            fin = ~np.isnan(Dexp)
            ok = bool(np.allclose(D[fin], Dexp[fin], **F64))
        if not ok:
            acc.v("RecurrencePlot.distance_matrix:value:" + metric,
                  "distance kernel disagrees with the metric definition",
                  D, Dexp)
            acc.s("R checks skipped after distance mismatch")
            continue
        # -- fixed thresholds
        menu, skipped = rr.threshold_menu(K, metric)
        if skipped:
            acc.x("irrational realised distance not used as threshold",
                  skipped)
        for t in menu:
            tk = rr.threshold_key(t, metric)
            _plot(arr, metric, kw, {"threshold": t}, "threshold",
                  rr.threshold_matrix(K, tk),
                  _at(K, rr.boundary_key(t, metric)), missing, acc)
        if anynan:
            for r in RATES:
                _missing_rule(arr, metric, kw, {"recurrence_rate": r},
                              "recurrence_rate", missing, acc)
                _missing_rule(arr, metric, kw, {"local_recurrence_rate": r},
                              "local_recurrence_rate", missing, acc)
            for s in range(1, n - 1):
                _missing_rule(arr, metric, kw,
                              {"adaptive_neighborhood_size": s}, "adaptive",
                              missing, acc)
            acc.x("threshold_std with missing values (std is NaN)")
            continue
        # -- threshold in units of the standard deviation (scalar series)
        if scalar and rr.variance(x) is None:
            acc.x("threshold_std: the series holds a NaN outside every state "
                  "vector (std is NaN)")
        elif scalar:
            var = rr.variance(x)
            for ts_ in STD_MENU:
                sq = rr.std_threshold_sq(ts_, var)
                if sq is not None:
                    gaps = [rr.std_gap(k, sq, metric)
                            for k in rr.distinct_keys(K)]
                    if any(0 < g < 1e-5 for g in gaps):
                        acc.x("threshold_std within float32 rounding of a "
                              "distance")
                        continue
                    if any(g == 0 for g in gaps):
                        f32 = float(np.array(x, dtype=np.float32).std())
                        if not (rr.is_square(var) and
                                rr.Fraction(f32) ** 2 == var):
                            acc.x("threshold_std*std equals a distance but "
                                  "std is not exact in float32")
                            continue
                exp = [[1 if rr.below_std(k, sq, metric) else 0 for k in row]
                       for row in K]
                _plot(arr, metric, kw, {"threshold_std": ts_},
                      "threshold_std", exp,
                      (lambda i, j: K[i][j] == 0) if sq is None else
                      (lambda i, j, sq=sq: rr.std_gap(K[i][j], sq, metric)
                       == 0), missing, acc)
        else:
            acc.x("threshold_std of a multi-dimensional series (which std is "
                  "meant is not stated)")
        # -- fixed global / local rates
        for r in RATES:
            _plot(arr, metric, kw, {"recurrence_rate": r}, "recurrence_rate",
                  rr.rate_matrix(K, r), None, missing, acc)
            R = _plot(arr, metric, kw, {"local_recurrence_rate": r},
                      "local_recurrence_rate", rr.local_rate_matrix(K, r),
                      None, missing, acc, directed=True)
            free = [i for i in range(n) if rr.tie_free(K[i])]
            acc.evals += 1
            if R.shape == (n, n) and len({int(R[i].sum()) for i in free}) > 1:
                acc.v("RecurrencePlot.recurrence_matrix:unequal-counts:"
                      "local_recurrence_rate", "tie-free rows have different "
                      "numbers of recurrences", R.sum(axis=1), "equal")
            if len(free) < n:
                acc.x("rows with tied distances: equal local count not "
                      "demanded", n - len(free))
        # -- adaptive neighbourhood size
        for s in range(1, n - 1):
            acc.evals += 1
            par = {"adaptive_neighborhood_size": s}
            try:
                rp = _mk_rp("RecurrencePlot", arr, metric, kw, **par)
            except Exception as e:   # noqa
                acc.v("RecurrencePlot.set_adaptive_neighborhood_size:raises:"
                      + type(e).__name__, "%s, size %d of %d states: %s" % (
                          metric, s, n, _exc(e)), _exc(e),
                      "every state gets >= %d neighbours" % s)
                continue
            R = _mat(rp.recurrence_matrix())
            acc.see(metric, par, R.tolist())
            off = R - np.diag(np.diag(R))
            if not np.array_equal(R, R.T):
                acc.v("RecurrencePlot.recurrence_matrix:asymmetric:adaptive",
                      "", R, "symmetric")
            if (off.sum(axis=1) < s).any():
                acc.v("RecurrencePlot.recurrence_matrix:too-few-neighbours:"
                      "adaptive", "size %d" % s, off.sum(axis=1), ">= %d" % s)
            bad = _sizes(rp, "RecurrencePlot", R, "adaptive", acc)
            acc.see(_rqa(rp, "RecurrencePlot", "adaptive", acc, bad))
            _network(arr, metric, kw, par, "adaptive", R, missing, acc)
    return acc.result(n <= 1)


# --------------------------------------------------------------------------
# family cross

def fam_cross(case):
    from pyunicorn.timeseries import CrossRecurrencePlot
    x, y, emb = case["x"], case["y"], case.get("emb")
    acc = Acc()
    dim, tau = emb if emb else (None, None)
    X, Y = rr.states(x, dim, tau), rr.states(y, dim, tau)
    nx, ny = len(X), len(Y)
    ax, ay = _np(x), _np(y)
    kw = dict(dim=dim, tau=tau) if emb else {}
    nomiss_r, nomiss_c = [False] * nx, [False] * ny
    crp = CrossRecurrencePlot(ax, ay, threshold=1024.0, silence_level=3, **kw)
    acc.evals += 1
    for got, S in ((crp.x_embedded, X), (crp.y_embedded, Y)):
        want = np.array([[float(v) for v in s] for s in S], dtype=float)
        if np.asarray(got).shape != want.shape or \
                not np.array_equal(np.asarray(got), want):
            acc.v("CrossRecurrencePlot.embedding:value:" + (
                "embedded" if emb else "plain"), "", got, want)
            return acc.result(nx * ny <= 1)
    for metric in METRICS:
        K = rr.key_matrix(X, Y, metric)
        menu, skipped = rr.threshold_menu(K, metric)
        if skipped:
            acc.x("irrational realised distance not used as threshold",
                  skipped)
        pars = [({"threshold": t}, rr.threshold_key(t, metric)) for t in menu]
        pars += [({"recurrence_rate": r}, None) for r in RATES]
        first = True
        for par, tk in pars:
            acc.evals += 1
            variant = list(par)[0]
            crp = CrossRecurrencePlot(ax, ay, metric=metric, silence_level=3,
                                      **kw, **par)
            if first:
                first = False
                acc.evals += 1
                D = np.asarray(crp.distance_matrix(metric))
                Dexp = np.array([[rr.key_float(k, metric) for k in row]
                                 for row in K], dtype=float).reshape(nx, ny)
                if D.shape != Dexp.shape or not np.allclose(D, Dexp, **F64):
                    acc.v("CrossRecurrencePlot.distance_matrix:value:"
                          + metric, "", D, Dexp)
                    break
            if variant == "threshold":
                exp = rr.threshold_matrix(K, tk)
            else:
                exp = rr.rate_matrix(K, par["recurrence_rate"])
            CR = _mat(crp.recurrence_matrix())
            acc.see(metric, par, CR.tolist())
            if CR.shape != (nx, ny) or not np.array_equal(CR, _mat(exp)):
                acc.v("CrossRecurrencePlot.recurrence_matrix:%s:%s" % (
                    _classify(CR, exp, _at(K, rr.boundary_key(
                        par["threshold"], metric)) if variant == "threshold"
                        else None, nomiss_r, nomiss_c), variant),
                      "%s, %r" % (metric, par), CR, exp)
            bad = _sizes(crp, "CrossRecurrencePlot", CR, variant, acc,
                         cross=True)
            if not bad:
                _rate_value(crp, "CrossRecurrencePlot", CR, variant, acc)
                acc.evals += 1
                if not np.isclose(crp.cross_recurrence_rate(),
                                  CR.sum() / CR.size, **F64):
                    acc.v("CrossRecurrencePlot.cross_recurrence_rate:value:"
                          + variant, "", crp.cross_recurrence_rate(),
                          CR.sum() / CR.size)
            _rqa(crp, "CrossRecurrencePlot", variant, acc, bad)
    return acc.result(nx * ny <= 1)


# --------------------------------------------------------------------------
# family joint

J_THR = [(0.75, 0.75), (0.5, 1.5), (2.5, 1.0), (1.25, 1024.0),
         (1024.0, 1.75), (0.0, 1024.0)]
J_STD = [(1.0, 0.5)]
J_RATES = [(0.5, 0.8), (1.0, 0.2)]
J_METRICS_EMB = [("supremum", "supremum"), ("manhattan", "euclidean"),
                 ("euclidean", "supremum"), ("supremum", "manhattan"),
                 ("euclidean", "euclidean")]
J_METRICS = [("supremum", "supremum"), ("manhattan", "euclidean"),
             ("euclidean", "supremum")]
J_SECOND = (1.25, 0.75)       # thresholds for the post-construction setter


def _lagclass(lag):
    return "lag=0" if lag == 0 else "lag!=0"


def _r_thr(X, metric, t):
    return rr.recurrence(X, X, metric, t)


def _r_std(X, series, metric, ts_, acc):
    """Recurrence matrix for threshold_std, or None when on a float32
    boundary."""
    var = rr.variance(series)
    K = rr.key_matrix(X, X, metric)
    sq = rr.std_threshold_sq(ts_, var)
    if sq is not None:
        gaps = [rr.std_gap(k, sq, metric) for k in rr.distinct_keys(K)]
        if any(0 < g < 1e-5 for g in gaps):
            return None
        if any(g == 0 for g in gaps):
            f32 = float(np.array(series, dtype=np.float32).std())
            if not (rr.is_square(var) and rr.Fraction(f32) ** 2 == var):
                return None
    return [[1 if rr.below_std(k, sq, metric) else 0 for k in row]
            for row in K]


def fam_joint(case):
    from pyunicorn.timeseries import JointRecurrencePlot, \
        JointRecurrenceNetwork
    x, y, lag, emb = case["x"], case["y"], case["lag"], case.get("emb")
    acc = Acc()
    if emb:
        (dx, tx), (dy, ty) = emb
        X, Y = rr.states(x, dx, tx), rr.states(y, dy, ty)
        kw = dict(dim=(dx, dy), tau=(tx, ty))
    else:
        X, Y = rr.states(x), rr.states(y)
        kw = {}
    m = min(len(X), len(Y))
    X, Y = X[:m], Y[:m]
    size = m - abs(lag)
    ax, ay = _np(x), _np(y)
    lc = _lagclass(lag)
    metrics = J_METRICS_EMB if emb else J_METRICS
    for mp in metrics:
        pars = [({"threshold": t}, "threshold") for t in J_THR]
        pars += [({"threshold_std": t}, "threshold_std") for t in J_STD]
        pars += [({"recurrence_rate": t}, "recurrence_rate") for t in J_RATES]
        for par, variant in pars:
            val = par[variant]
            if variant == "threshold":
                Rx, Ry = _r_thr(X, mp[0], val[0]), _r_thr(Y, mp[1], val[1])
            elif variant == "threshold_std":
                if not (_is_scalar(x) and _is_scalar(y)):
                    acc.x("threshold_std of a multi-dimensional series")
                    continue
                Rx = _r_std(X, x, mp[0], val[0], acc)
                Ry = _r_std(Y, y, mp[1], val[1], acc)
                if Rx is None or Ry is None:
                    acc.x("threshold_std on a float32 rounding boundary")
                    continue
            else:
                Rx = rr.rate_matrix(rr.key_matrix(X, X, mp[0]), val[0])
                Ry = rr.rate_matrix(rr.key_matrix(Y, Y, mp[1]), val[1])
            exp = rr.joint(Rx, Ry, lag)
            tag = "%s:%s" % (variant, lc)
            acc.evals += 1
            try:
                jrp = JointRecurrencePlot(ax, ay, metric=mp, lag=lag,
                                          silence_level=3, **kw, **par)
            except Exception as e:   # noqa
                acc.v("JointRecurrencePlot.__init__:raises:" + tag,
                      "%r %r: %s" % (mp, par, _exc(e)), _exc(e), exp)
                continue
            JR = _mat(jrp.recurrence_matrix())
            acc.see(mp, par, JR.tolist())
            jr_ok = JR.shape == (size, size) and \
                np.array_equal(JR, _mat(exp))
            if not jr_ok:
                acc.v("JointRecurrencePlot.recurrence_matrix:value:" + tag,
                      "%r %r lag %d: JR is not the product of the shifted "
                      "recurrence matrices" % (mp, par, lag), JR, exp)
            bad = _sizes(jrp, "JointRecurrencePlot", JR, lc, acc)
            if not bad:
                _rate_value(jrp, "JointRecurrencePlot", JR, lc, acc)
            acc.see(_rqa(jrp, "JointRecurrencePlot", lc, acc, bad))
            # -- the network (every parameter set for the default metrics,
            #    the first and fourth of each variant for the others)
            if mp != J_METRICS[0] and not acc.budget(("jrn", mp, variant)):
                continue
            acc.evals += 1
            try:
                net = JointRecurrenceNetwork(ax, ay, metric=mp, lag=lag,
                                             silence_level=3, **kw, **par)
            except Exception as e:   # noqa
                if size == 1:
                    acc.v("Network.__init__:raises:single-node",
                          "a joint recurrence network of a single state "
                          "cannot be built: " + _exc(e), _exc(e), [[0]])
                else:
                    acc.v("JointRecurrenceNetwork.__init__:raises:" + tag,
                          _exc(e), _exc(e), "a network")
                continue
            A = _mat(net.adjacency)
            JRn = _mat(net.JR)
            if JRn.shape != JR.shape or not np.array_equal(JRn, JR):
                acc.v("JointRecurrenceNetwork.JR:differs-from-plot:" + tag,
                      "%r %r lag %d" % (mp, par, lag), JRn, JR)
            want = _mat(rr.no_diagonal(JRn.tolist()))
            if A.shape != want.shape or not np.array_equal(A, want):
                if A.shape == want.shape and np.array_equal(
                        A, JRn - np.eye(len(JRn), dtype=int)) and \
                        (np.diag(A) == -1).any():
                    key = "JointRecurrenceNetwork.adjacency:diagonal=-1:" \
                          "zero-diagonal-JR"
                else:
                    key = "JointRecurrenceNetwork.adjacency:value:" + tag
                acc.v(key, "%r %r lag %d: adjacency is not JR without its "
                      "diagonal" % (mp, par, lag), A, want)
            bad = _sizes(net, "JointRecurrenceNetwork", net.JR, lc, acc)
            acc.see(_rqa(net, "JointRecurrenceNetwork", lc, acc, bad))
            # -- setter after construction (thresholds only)
            if variant != "threshold" or val != J_THR[0]:
                continue
            acc.evals += 1
            exp2 = rr.joint(_r_thr(X, mp[0], J_SECOND[0]),
                            _r_thr(Y, mp[1], J_SECOND[1]), lag)
            try:
                net.set_fixed_threshold(J_SECOND)
                A = _mat(net.adjacency)
                JR2 = _mat(net.JR)
            except Exception as e:   # noqa
                acc.v("JointRecurrenceNetwork.set_fixed_threshold:raises:"
                      + lc, _exc(e), _exc(e), exp2)
                continue
            if JR2.shape != (size, size):
                acc.v("JointRecurrenceNetwork.set_fixed_threshold:JR:" + lc,
                      "shape", JR2.shape, (size, size))
            elif A.shape != JR2.shape or not np.array_equal(
                    A, _mat(rr.no_diagonal(JR2.tolist()))):
                loops = A.shape == JR2.shape and bool(np.diag(A).any())
                acc.v("JointRecurrenceNetwork.set_fixed_threshold:%s:%s" % (
                    "self-loops" if loops else "adjacency", lc),
                      "%r lag %d: adjacency after set_fixed_threshold is not "
                      "JR without its diagonal" % (mp, lag), A,
                      rr.no_diagonal(JR2.tolist()))
            elif jr_ok and not np.array_equal(JR2, _mat(exp2)):
                acc.v("JointRecurrenceNetwork.set_fixed_threshold:JR:" + lc,
                      "%r lag %d" % (mp, lag), JR2, exp2)
    return acc.result(size <= 1)


# --------------------------------------------------------------------------
# family isrn

I_THR = [(0.75, 0.75, 0.75), (0.75, 1.25, 0.5), (1.5, 0.5, 1.75),
         (2.5, 1.0, 1.0), (0.0, 1024.0, 0.75), (1024.0, 0.0, 1024.0)]
I_RATES = [(0.5, 0.5, 0.5), (0.2, 0.8, 1.0), (1.0, 0.0, 0.2)]
I_METHODS = ["internal_recurrence_rates", "cross_recurrence_rate",
             "cross_global_clustering_xy", "cross_global_clustering_yx",
             "cross_transitivity_xy", "cross_transitivity_yx"]


def fam_isrn(case):
    from pyunicorn.timeseries import InterSystemRecurrenceNetwork
    x, y, emb = case["x"], case["y"], case.get("emb")
    metrics = case.get("metrics") or METRICS
    acc = Acc()
    if emb:
        dim, (tx, ty) = emb
        X, Y = rr.states(x, dim, tx), rr.states(y, dim, ty)
        kw = dict(dim=dim, tau=(tx, ty))
        tag = "embedding"
    else:
        X, Y = rr.states(x), rr.states(y)
        kw = {}
        tag = "plain"
    nx, ny = len(X), len(Y)
    ax, ay = _np(x), _np(y)
    for metric in metrics:
        Kx, Ky = rr.key_matrix(X, X, metric), rr.key_matrix(Y, Y, metric)
        Kc = rr.key_matrix(X, Y, metric)
        pars = [({"threshold": t}, "threshold") for t in I_THR]
        pars += [({"recurrence_rate": t}, "recurrence_rate") for t in I_RATES]
        for par, variant in pars:
            val = par[variant]
            if variant == "threshold":
                Rx, Ry, CR = (rr.threshold_matrix(
                    K, rr.threshold_key(t, metric))
                    for K, t in zip((Kx, Ky, Kc), val))
            else:
                Rx, Ry, CR = (rr.rate_matrix(K, t)
                              for K, t in zip((Kx, Ky, Kc), val))
            ISRM = rr.inter_system(Rx, CR, Ry)
            acc.evals += 1
            try:
                net = InterSystemRecurrenceNetwork(
                    ax, ay, metric=metric, silence_level=3, **kw, **par)
            except Exception as e:   # noqa
                if emb and isinstance(e, ValueError) and "broadcast" in str(e):
                    # same bookkeeping failure as the silent variant below
                    acc.v("InterSystemRecurrenceNetwork.N:size-mismatch:"
                          "embedding", "%s %r: N_x, N_y are the lengths "
                          "before embedding, the blocks do not fit: %s" % (
                              metric, par, _exc(e)), _exc(e),
                          rr.no_diagonal(ISRM))
                else:
                    acc.v("InterSystemRecurrenceNetwork.__init__:raises:"
                          + tag, "%s %r: %s" % (metric, par, _exc(e)),
                          _exc(e), rr.no_diagonal(ISRM))
                continue
            acc.evals += 2
            if (net.N, net.N_x, net.N_y) != (nx + ny, nx, ny):
                acc.v("InterSystemRecurrenceNetwork.N:size-mismatch:" + tag,
                      "%s %r: N, N_x, N_y do not count the state vectors" % (
                          metric, par), [net.N, net.N_x, net.N_y],
                      [nx + ny, nx, ny])
                continue
            A = _mat(net.adjacency)
            acc.see(metric, par, A.tolist())
            own = [_mat(net.rp_x.recurrence_matrix()),
                   _mat(net.crp_xy.recurrence_matrix()),
                   _mat(net.rp_y.recurrence_matrix())]
            blocks_ok = all(
                o.shape == _mat(e).shape and np.array_equal(o, _mat(e))
                for o, e in zip(own, (Rx, CR, Ry)))
            if not blocks_ok:
                acc.v("InterSystemRecurrenceNetwork.blocks:value:%s:%s" % (
                    variant, tag), "%s %r: the recurrence / cross recurrence "
                      "matrices of the two systems" % (metric, par),
                      [o.tolist() for o in own], [Rx, CR, Ry])
                continue
            want = _mat(rr.no_diagonal(ISRM))
            if A.shape != want.shape or not np.array_equal(A, want):
                acc.v("InterSystemRecurrenceNetwork.adjacency:value:" + tag,
                      "%s %r: adjacency is not the block matrix "
                      "[[Rx, CR], [CR^T, Ry]] without its diagonal" % (
                          metric, par), A, want)
            M = np.asarray(net.inter_system_recurrence_matrix())
            if M.shape != (nx + ny, nx + ny) or \
                    not np.array_equal(M, _mat(ISRM)):
                acc.v("InterSystemRecurrenceNetwork."
                      "inter_system_recurrence_matrix:value:" + tag, "", M,
                      ISRM)
            heavy = acc.budget(("isrn-methods", variant))
            for name in I_METHODS:
                if name.startswith("cross_") and not heavy and \
                        name != "cross_recurrence_rate":
                    continue
                acc.evals += 1
                try:
                    got = getattr(net, name)()
                except NotImplementedError:
                    acc.x("InterSystemRecurrenceNetwork.%s: "
                          "NotImplementedError" % name)
                    continue
                except Exception as e:   # noqa
                    acc.v("InterSystemRecurrenceNetwork.%s:raises:%s" % (
                        name, tag), _exc(e), _exc(e), "no exception")
                    continue
                if name == "internal_recurrence_rates":
                    e_ = (np.sum(Rx) / nx ** 2, np.sum(Ry) / ny ** 2)
                elif name == "cross_recurrence_rate":
                    e_ = np.sum(CR) / (nx * ny)
                else:
                    # the _xy / _yx measures are the generic cross measures
                    # of the two subnetworks: x = the first N_x nodes, y = the
                    # following N_y nodes (matters when N_x != N_y)
                    gx, gy = list(range(nx)), list(range(nx, nx + ny))
                    generic = name[:-3]
                    a, b = (gx, gy) if name.endswith("_xy") else (gy, gx)
                    try:
                        e_ = getattr(net, generic)(a, b)
                    except Exception:   # noqa
                        continue
                if not np.allclose(got, e_, **F64):
                    acc.v("InterSystemRecurrenceNetwork.%s:value:%s" % (
                        name, tag), "", got, e_)
    return acc.result(False)



# --------------------------------------------------------------------------
# family scale: hundreds of state vectors (row blocks of 128/256, int16 flat
# indices >= 32768 from N >= 182), vectorised oracle

PRIME = 307


def _pattern(name, n):
    """Deterministic dyadic series (few significant bits, exact in float32)."""
    i = np.arange(n)
    if name == "saw":                 # period 16, many ties
        return ((i * 7) % 16) * 0.25
    if name == "steps":               # plateaus of 5 with a small ripple
        return (i // 5 % 6) * 0.5 + (i % 2) * 0.125
    if name == "blocks":              # runs crossing positions 128 and 256
        hi = ((i >= 126) & (i < 131)) | ((i >= 254) & (i < 259)) | \
            (i >= n - 3)
        return np.where(hi, 2.0, 0.0) + (i % 3) * 0.25
    if name == "squares":             # all values distinct, few tied rows
        q = (i * 37) % PRIME
        return q * q / 64.0
    if name == "qres":
        return ((i * i) % 23) * 0.5
    raise ValueError(name)


MV_POS = [0, 5, 127, 128, 129, 255, 256]


def _series(spec):
    name, n = spec[0], spec[1]
    x = _pattern(name, n)
    if len(spec) > 2 and spec[2]:
        x = x.copy()
        for q in MV_POS + [n - 1, n - 2]:
            if q < n:
                x[q] = NAN
    return x


def _sizeclass(n):
    return "N>256" if n > 256 else ("N>128" if n > 128 else "N<=128")


def _diff(got, exp):
    got, exp = np.asarray(got), np.asarray(exp)
    if got.shape != exp.shape:
        return "shape %r != %r" % (got.shape, exp.shape)
    idx = np.argwhere(got != exp)
    return "%d entries differ, first at %r (got %r, expected %r)" % (
        len(idx), idx[0].tolist(), got[tuple(idx[0])].item(),
        exp[tuple(idx[0])].item())


S_THR = [0.5, 1.25]
S_RATES = [0.05, 0.5, 0.9]
S_ADAPT = [1, 4]


def _scale_rp(case, acc):
    from pyunicorn.timeseries import RecurrencePlot, RecurrenceNetwork
    spec, emb = case["x"], case.get("emb")
    x = _series(spec)
    mv = bool(len(spec) > 2 and spec[2])
    dim, tau = emb if emb else (None, None)
    X = rr.np_states(x, dim, tau)
    n = len(X)
    sc = _sizeclass(n)
    missing = np.isnan(X).any(axis=1)
    kw = dict(silence_level=3)
    if emb:
        kw.update(dim=dim, tau=tau)
    if mv:
        kw["missing_values"] = True
    keep = np.nonzero(~missing)[0]
    for metric in METRICS:
        K = rr.np_keys(X, X, metric)
        rp = RecurrencePlot(x, metric=metric, threshold=1024.0, **kw)
        acc.evals += 2
        E = np.asarray(rp.embedding)
        if E.shape != X.shape or not np.array_equal(E, X, equal_nan=True):
            acc.v("RecurrencePlot.embedding:value:%s:%s" % (
                "embedded" if emb else "plain", sc), _diff(E, X))
            continue
        D = np.asarray(rp.distance_matrix(metric))
        Dexp = rr.np_key_float(K, metric)
        fin = ~np.isnan(Dexp)
        if D.shape != Dexp.shape or not np.allclose(D[fin], Dexp[fin], **F64):
            acc.v("RecurrencePlot.distance_matrix:value:%s:%s" % (metric, sc),
                  "distance kernel disagrees with the metric definition",
                  D[-1, -8:], Dexp[-1, -8:])
            continue
        plots = [({"threshold": t}, "threshold", rr.np_threshold(K, t, metric))
                 for t in S_THR]
        if metric != "euclidean":
            ds = np.unique(K[~np.isnan(K)])
            t = float(ds[len(ds) // 2])        # a realised distance
            plots.append(({"threshold": t}, "threshold",
                          rr.np_threshold(K, t, metric)))
        if mv:
            # only the missing-value rule is defined for the other variants
            for r in S_RATES:
                plots.append(({"recurrence_rate": r}, "recurrence_rate", None))
                plots.append(({"local_recurrence_rate": r},
                              "local_recurrence_rate", None))
            plots.append(({"adaptive_neighborhood_size": S_ADAPT[1]},
                          "adaptive", None))
        else:
            R_, gap = rr.np_below_sq(K, rr.np_std_sq(x, 1.0), metric)
            if gap > 1e-4:
                plots.append(({"threshold_std": 1.0}, "threshold_std", R_))
            else:
                acc.x("threshold_std within float32 rounding of a distance")
            for r in S_RATES:
                plots.append(({"recurrence_rate": r}, "recurrence_rate",
                              rr.np_rate(K, r)))
                plots.append(({"local_recurrence_rate": r},
                              "local_recurrence_rate",
                              rr.np_local_rate(K, r)))
            for a in S_ADAPT:
                plots.append(({"adaptive_neighborhood_size": a}, "adaptive",
                              "adaptive"))
        for par, variant, exp in plots:
            tag = "%s%s:%s" % (variant, "+mv" if mv else "", sc)
            acc.evals += 1
            try:
                rp = RecurrencePlot(x, metric=metric, **kw, **par)
            except Exception as e:   # noqa
                acc.v("RecurrencePlot.__init__:raises:" + tag, "%s %r: %s" % (
                    metric, par, _exc(e)), _exc(e), "a plot")
                continue
            R = _mat(rp.recurrence_matrix())
            acc.see(metric, par, hashlib.sha1(R.tobytes()).hexdigest())
            if R.shape != (n, n):
                acc.v("RecurrencePlot.recurrence_matrix:shape:" + tag, "",
                      R.shape, (n, n))
                continue
            if mv and (R[missing, :].any() or R[:, missing].any()):
                acc.v("RecurrencePlot.recurrence_matrix:missing-recurrent:"
                      + tag, "%s %r" % (metric, par),
                      int(R[missing, :].sum() + R[:, missing].sum()), 0)
            if exp is None:
                acc.x("%s: quantile of distances containing NaN (only the "
                      "missing-value rule is judged)" % variant)
            elif isinstance(exp, str):
                val = par["adaptive_neighborhood_size"]
                off = R - np.diag(np.diag(R))
                if not np.array_equal(R, R.T):
                    acc.v("RecurrencePlot.recurrence_matrix:asymmetric:" + tag,
                          "", "asymmetric", "symmetric")
                if (off.sum(axis=1) < val).any():
                    acc.v("RecurrencePlot.recurrence_matrix:"
                          "too-few-neighbours:" + tag, "size %d" % val,
                          int(off.sum(axis=1).min()), ">= %d" % val)
            elif not np.array_equal(R, exp):
                acc.v("RecurrencePlot.recurrence_matrix:value:" + tag,
                      "%s %r: %s" % (metric, par, _diff(R, exp)),
                      R[-1, -12:], exp[-1, -12:])
            if variant == "local_recurrence_rate" and not mv:
                free = rr.np_tie_free_rows(K)
                acc.evals += 1
                acc.s("scale: tie-free rows", len(free))
                if len(set(R[free].sum(axis=1).tolist())) > 1:
                    acc.v("RecurrencePlot.recurrence_matrix:unequal-counts:"
                          + tag, "tie-free rows have different numbers of "
                          "recurrences", sorted(set(
                              R[free].sum(axis=1).tolist())), "equal")
            bad = _sizes(rp, "RecurrencePlot", R, tag, acc)
            if not bad:
                _rate_value(rp, "RecurrencePlot", R, tag, acc)
            acc.see(_rqa(rp, "RecurrencePlot", tag, acc, bad))
            # -- the network, once per variant and metric
            if not acc.budget(("snet", metric, variant), picks=(0,)):
                continue
            acc.evals += 1
            try:
                net = RecurrenceNetwork(x, metric=metric, **kw, **par)
            except Exception as e:   # noqa
                acc.v("RecurrenceNetwork.__init__:raises:" + tag, _exc(e),
                      _exc(e), "a network")
                continue
            A = _mat(net.adjacency)
            Rn = _mat(net.R)
            if not np.array_equal(Rn, R):
                acc.v("RecurrenceNetwork.R:differs-from-plot:" + tag,
                      _diff(Rn, R))
            want = rr.np_no_diagonal(Rn)[np.ix_(keep, keep)]
            if A.shape != want.shape or not np.array_equal(A, want):
                acc.v("RecurrenceNetwork.adjacency:value:" + tag,
                      "%s %r: adjacency is not R without its diagonal: %s" % (
                          metric, par, _diff(A, want)), A[-1, -12:],
                      want[-1, -12:] if len(want) else [])
            if bool(net.directed) != (variant == "local_recurrence_rate"):
                acc.v("RecurrenceNetwork.directed:value:" + tag, "",
                      net.directed, variant == "local_recurrence_rate")
            acc.evals += 1
            if int(net.n_links) != int(want.sum()) // (
                    1 if net.directed else 2):
                acc.v("RecurrenceNetwork.n_links:value:" + tag, "",
                      net.n_links, int(want.sum()))
            bad = _sizes(net, "RecurrenceNetwork", net.R,
                         "missing_values" if mv else "plain:" + sc, acc)
            acc.see(_rqa(net, "RecurrenceNetwork", tag, acc, bad))
    return n


def _scale_cross(case, acc):
    from pyunicorn.timeseries import CrossRecurrencePlot
    emb = case.get("emb")
    x, y = _series(case["x"]), _series(case["y"])
    dim, tau = emb if emb else (None, None)
    X, Y = rr.np_states(x, dim, tau), rr.np_states(y, dim, tau)
    nx, ny = len(X), len(Y)
    sc = _sizeclass(max(nx, ny))
    kw = dict(dim=dim, tau=tau) if emb else {}
    for metric in METRICS:
        K = rr.np_keys(X, Y, metric)
        pars = [({"threshold": t}, rr.np_threshold(K, t, metric))
                for t in S_THR]
        pars += [({"recurrence_rate": r}, rr.np_rate(K, r)) for r in S_RATES]
        for k, (par, exp) in enumerate(pars):
            variant = list(par)[0]
            tag = "%s:%s" % (variant, sc)
            acc.evals += 1
            crp = CrossRecurrencePlot(x, y, metric=metric, silence_level=3,
                                      **kw, **par)
            if k == 0:
                acc.evals += 1
                D = np.asarray(crp.distance_matrix(metric))
                Dexp = rr.np_key_float(K, metric)
                if D.shape != Dexp.shape or not np.allclose(D, Dexp, **F64):
                    acc.v("CrossRecurrencePlot.distance_matrix:value:%s:%s" % (
                        metric, sc), "", D[-1, -8:], Dexp[-1, -8:])
                    break
            CR = _mat(crp.recurrence_matrix())
            acc.see(metric, par, hashlib.sha1(CR.tobytes()).hexdigest())
            if CR.shape != (nx, ny) or not np.array_equal(CR, exp):
                acc.v("CrossRecurrencePlot.recurrence_matrix:value:" + tag,
                      "%s %r: %s" % (metric, par, _diff(CR, exp)),
                      CR[-1, -12:] if CR.size else [], exp[-1, -12:])
            bad = _sizes(crp, "CrossRecurrencePlot", CR, tag, acc, cross=True)
            if not bad:
                _rate_value(crp, "CrossRecurrencePlot", CR, tag, acc)
            _rqa(crp, "CrossRecurrencePlot", tag, acc, bad)
    return nx * ny


def _scale_joint(case, acc):
    from pyunicorn.timeseries import JointRecurrencePlot, \
        JointRecurrenceNetwork
    emb, lag = case.get("emb"), case["lag"]
    x, y = _series(case["x"]), _series(case["y"])
    if emb:
        (dx, tx), (dy, ty) = emb
        X, Y = rr.np_states(x, dx, tx), rr.np_states(y, dy, ty)
        kw = dict(dim=(dx, dy), tau=(tx, ty))
    else:
        X, Y = rr.np_states(x), rr.np_states(y)
        kw = {}
    m = min(len(X), len(Y))
    X, Y = X[:m], Y[:m]
    size = m - abs(lag)
    sc = _sizeclass(size)
    lc = _lagclass(lag)
    for mp in J_METRICS:
        Kx, Ky = rr.np_keys(X, X, mp[0]), rr.np_keys(Y, Y, mp[1])
        pars = [({"threshold": (0.75, 1.25)}, "threshold",
                 rr.np_threshold(Kx, 0.75, mp[0]),
                 rr.np_threshold(Ky, 1.25, mp[1])),
                ({"recurrence_rate": (0.3, 0.6)}, "recurrence_rate",
                 rr.np_rate(Kx, 0.3), rr.np_rate(Ky, 0.6))]
        Rx, gx = rr.np_below_sq(Kx, rr.np_std_sq(x, 1.0), mp[0])
        Ry, gy = rr.np_below_sq(Ky, rr.np_std_sq(y, 0.5), mp[1])
        if min(gx, gy) > 1e-4:
            pars.append(({"threshold_std": (1.0, 0.5)}, "threshold_std",
                         Rx, Ry))
        else:
            acc.x("threshold_std within float32 rounding of a distance")
        for par, variant, Rx, Ry in pars:
            exp = rr.np_joint(Rx, Ry, lag)
            tag = "%s:%s:%s" % (variant, lc, sc)
            acc.evals += 1
            try:
                jrp = JointRecurrencePlot(x, y, metric=mp, lag=lag,
                                          silence_level=3, **kw, **par)
            except Exception as e:   # noqa
                acc.v("JointRecurrencePlot.__init__:raises:" + tag,
                      "%r %r: %s" % (mp, par, _exc(e)), _exc(e), "a plot")
                continue
            JR = _mat(jrp.recurrence_matrix())
            acc.see(mp, par, hashlib.sha1(JR.tobytes()).hexdigest())
            ok = JR.shape == (size, size) and np.array_equal(JR, exp)
            if not ok:
                acc.v("JointRecurrencePlot.recurrence_matrix:value:" + tag,
                      "%r %r lag %d: %s" % (mp, par, lag, _diff(JR, exp)),
                      JR[-1, -12:] if JR.size else [], exp[-1, -12:])
            bad = _sizes(jrp, "JointRecurrencePlot", JR, lc + ":" + sc, acc)
            if not bad:
                _rate_value(jrp, "JointRecurrencePlot", JR, lc + ":" + sc, acc)
            acc.see(_rqa(jrp, "JointRecurrencePlot", lc + ":" + sc, acc, bad))
            if variant != "threshold":
                continue
            acc.evals += 2
            try:
                net = JointRecurrenceNetwork(x, y, metric=mp, lag=lag,
                                             silence_level=3, **kw, **par)
                A = _mat(net.adjacency)
                JRn = _mat(net.JR)
            except Exception as e:   # noqa
                acc.v("JointRecurrenceNetwork.__init__:raises:" + tag,
                      _exc(e), _exc(e), "a network")
                continue
            if not np.array_equal(JRn, JR):
                acc.v("JointRecurrenceNetwork.JR:differs-from-plot:" + tag,
                      _diff(JRn, JR))
            want = rr.np_no_diagonal(JRn)
            if A.shape != want.shape or not np.array_equal(A, want):
                acc.v("JointRecurrenceNetwork.adjacency:value:" + tag,
                      "%r lag %d: %s" % (mp, lag, _diff(A, want)),
                      A[-1, -12:], want[-1, -12:])
            bad = _sizes(net, "JointRecurrenceNetwork", net.JR,
                         lc + ":" + sc, acc)
            acc.see(_rqa(net, "JointRecurrenceNetwork", lc + ":" + sc, acc,
                         bad))
            try:
                net.set_fixed_threshold(J_SECOND)
                A = _mat(net.adjacency)
                JR2 = _mat(net.JR)
            except Exception as e:   # noqa
                acc.v("JointRecurrenceNetwork.set_fixed_threshold:raises:%s:%s"
                      % (lc, sc), _exc(e), _exc(e), "a network")
                continue
            exp2 = rr.np_joint(rr.np_threshold(Kx, J_SECOND[0], mp[0]),
                               rr.np_threshold(Ky, J_SECOND[1], mp[1]), lag)
            if JR2.shape != exp2.shape or not np.array_equal(JR2, exp2):
                acc.v("JointRecurrenceNetwork.set_fixed_threshold:JR:%s:%s" % (
                    lc, sc), _diff(JR2, exp2))
            elif not np.array_equal(A, rr.np_no_diagonal(JR2)):
                acc.v("JointRecurrenceNetwork.set_fixed_threshold:adjacency:"
                      "%s:%s" % (lc, sc), _diff(A, rr.np_no_diagonal(JR2)))
    return size


def _scale_isrn(case, acc):
    from pyunicorn.timeseries import InterSystemRecurrenceNetwork
    emb = case.get("emb")
    x, y = _series(case["x"]), _series(case["y"])
    if emb:
        dim, (tx, ty) = emb
        X, Y = rr.np_states(x, dim, tx), rr.np_states(y, dim, ty)
        kw = dict(dim=dim, tau=(tx, ty))
        tag = "embedding"
    else:
        X, Y = rr.np_states(x), rr.np_states(y)
        kw = {}
        tag = "plain"
    nx, ny = len(X), len(Y)
    tag += ":" + _sizeclass(nx + ny)
    for metric in METRICS:
        Kx, Ky, Kc = rr.np_keys(X, X, metric), rr.np_keys(Y, Y, metric), \
            rr.np_keys(X, Y, metric)
        pars = [({"threshold": (0.75, 1.25, 0.5)}, [
            rr.np_threshold(K, t, metric)
            for K, t in zip((Kx, Ky, Kc), (0.75, 1.25, 0.5))]),
                ({"recurrence_rate": (0.2, 0.5, 0.1)}, [
                    rr.np_rate(K, t)
                    for K, t in zip((Kx, Ky, Kc), (0.2, 0.5, 0.1))])]
        for par, (Rx, Ry, CR) in pars:
            variant = list(par)[0]
            acc.evals += 3
            try:
                net = InterSystemRecurrenceNetwork(
                    x, y, metric=metric, silence_level=3, **kw, **par)
            except Exception as e:   # noqa
                acc.v("InterSystemRecurrenceNetwork.__init__:raises:" + tag,
                      "%s %r: %s" % (metric, par, _exc(e)), _exc(e),
                      "a network")
                continue
            if (net.N, net.N_x, net.N_y) != (nx + ny, nx, ny):
                acc.v("InterSystemRecurrenceNetwork.N:size-mismatch:" + tag,
                      "", [net.N, net.N_x, net.N_y], [nx + ny, nx, ny])
                continue
            A = _mat(net.adjacency)
            acc.see(metric, par, hashlib.sha1(A.tobytes()).hexdigest())
            own = [_mat(net.rp_x.recurrence_matrix()),
                   _mat(net.crp_xy.recurrence_matrix()),
                   _mat(net.rp_y.recurrence_matrix())]
            if not all(o.shape == e.shape and np.array_equal(o, e)
                       for o, e in zip(own, (Rx, CR, Ry))):
                acc.v("InterSystemRecurrenceNetwork.blocks:value:%s:%s" % (
                    variant, tag), "%s %r" % (metric, par))
                continue
            want = rr.np_no_diagonal(rr.np_inter_system(Rx, CR, Ry))
            if A.shape != want.shape or not np.array_equal(A, want):
                acc.v("InterSystemRecurrenceNetwork.adjacency:value:" + tag,
                      "%s %r: %s" % (metric, par, _diff(A, want)),
                      A[-1, -12:], want[-1, -12:])
            got = net.internal_recurrence_rates()
            e_ = (Rx.sum() / nx ** 2, Ry.sum() / ny ** 2)
            if not np.allclose(got, e_, **F64):
                acc.v("InterSystemRecurrenceNetwork.internal_recurrence_rates"
                      ":value:" + tag, "", got, e_)
            if not np.isclose(net.cross_recurrence_rate(),
                              CR.sum() / (nx * ny), **F64):
                acc.v("InterSystemRecurrenceNetwork.cross_recurrence_rate:"
                      "value:" + tag, "", net.cross_recurrence_rate(),
                      CR.sum() / (nx * ny))
            if acc.budget(("sisrn", variant), picks=(0,)):
                for name in I_METHODS[2:]:
                    acc.evals += 1
                    try:
                        getattr(net, name)()
                    except NotImplementedError:
                        acc.x("InterSystemRecurrenceNetwork.%s: "
                              "NotImplementedError" % name)
                    except Exception as e:   # noqa
                        acc.v("InterSystemRecurrenceNetwork.%s:raises:%s" % (
                            name, tag), _exc(e), _exc(e), "no exception")
    return nx + ny


def fam_scale(case):
    acc = Acc()
    n = {"rp": _scale_rp, "cross": _scale_cross, "joint": _scale_joint,
         "isrn": _scale_isrn}[case["kind"]](case, acc)
    return acc.result(n <= 1)


def _scale_cases(thorough):
    out = []
    sizes = [130, 150, 209, 300]
    pats = ["saw", "steps", "blocks", "squares", "qres"]
    for n in sizes:
        for p in pats:
            out.append({"kind": "rp", "x": [p, n, 0], "emb": None})
        for p in (["saw", "squares"] if not thorough else pats):
            out.append({"kind": "rp", "x": [p, n, 0], "emb": [3, 2]})
            if thorough:
                out.append({"kind": "rp", "x": [p, n, 0], "emb": [2, 1]})
        out.append({"kind": "rp", "x": ["saw", n, 1], "emb": None})
        out.append({"kind": "rp", "x": ["squares", n, 1], "emb": [3, 2]})
    if thorough:
        for p in pats:
            out.append({"kind": "rp", "x": [p, 263, 0], "emb": [3, 2]})
    for (p, n), (q, m), emb in [
            (("saw", 150), ("qres", 209), None),
            (("squares", 209), ("steps", 130), [2, 1]),
            (("blocks", 130), ("saw", 300), None),
            (("steps", 300), ("squares", 150), [3, 2])]:
        out.append({"kind": "cross", "x": [p, n, 0], "y": [q, m, 0],
                    "emb": emb})
    for n in [150, 209] + ([300] if thorough else []):
        for lag in (40, -40, 1, 0):
            out.append({"kind": "joint", "x": ["saw", n, 0],
                        "y": ["qres", n, 0], "lag": lag, "emb": None})
        out.append({"kind": "joint", "x": ["squares", n, 0],
                    "y": ["steps", n, 0], "lag": 40,
                    "emb": [[2, 1], [3, 2]]})
        out.append({"kind": "joint", "x": ["blocks", n, 0],
                    "y": ["squares", n, 0], "lag": -40,
                    "emb": [[3, 2], [2, 1]]})
    for (n, m) in [(130, 90), (209, 150)] + ([(150, 209)] if thorough else []):
        out.append({"kind": "isrn", "x": ["saw", n, 0], "y": ["qres", m, 0],
                    "emb": None})
        out.append({"kind": "isrn", "x": ["steps", n, 0],
                    "y": ["blocks", m, 0], "emb": [2, [1, 2]]})
    out.sort(key=lambda c: (c["x"][1] + (c.get("y") or [0, 0])[1]))
    return out


# --------------------------------------------------------------------------
# family normalize: the `normalize=True` option.  The normalised values are
# not dyadic, so the exact oracle of `rp` does not apply; instead
#   (1) the stored series is the caller's series with zero mean and unit
#       standard deviation per component (constant components: centred),
#   (2) the state vectors are the delay embedding of THAT series,
#   (3) R is the thresholded distance matrix of THOSE state vectors (float64
#       evaluation of the metric on the stored float32 states; pairs within
#       1e-5 of the threshold are not judged),
#   (4) the caller's array is untouched,
# for plots, networks and the rate / local-rate constructions.

NORM_SERIES = {
    "scalar": [0.5, 2.25, -1.0, 3.5, 0.75, 2.0, -0.25, 1.5, 4.0, 0.0, 1.25],
    "two": [[0.5, 10.0], [2.25, 12.5], [-1.0, 11.0], [3.5, 9.0],
            [0.75, 10.5], [2.0, 13.0], [-0.25, 8.5], [1.5, 10.25],
            [4.0, 12.0]],
    "const-component": [[1.0, 7.0], [2.0, 7.0], [4.0, 7.0], [3.0, 7.0],
                        [0.5, 7.0], [2.5, 7.0], [1.5, 7.0]],
    "offset": [1000.0 + v for v in (0.5, 2.25, -1.0, 3.5, 0.75, 2.0, -0.25,
                                    1.5, 4.0, 0.0)],
}


def _metric_dist(E, metric):
    d = np.abs(E[:, None, :].astype(float) - E[None, :, :].astype(float))
    if metric == "manhattan":
        return d.sum(axis=2)
    if metric == "euclidean":
        return np.sqrt((d ** 2).sum(axis=2))
    return d.max(axis=2)


def fam_normalize(case):
    name, emb, metric = case
    acc = Acc()
    x = np.array(NORM_SERIES[name], dtype=float)
    x0 = x.copy()
    kw = {"normalize": True}
    if emb:
        kw.update(dim=emb[0], tau=emb[1])
    cols = x.reshape(len(x), -1)
    std = cols.std(axis=0)
    want = (cols - cols.mean(axis=0)) / np.where(std == 0, 1.0, std)
    if emb:
        n = len(x) - (emb[0] - 1) * emb[1]
        wantE = np.stack([want[k * emb[1]:k * emb[1] + n, 0]
                          for k in range(emb[0])], axis=1)
    else:
        wantE = want
    tag = name + ("+emb" if emb else "")
    pars = [("threshold", {"threshold": t}) for t in (0.5, 1.25, 3.0)] + [
        ("recurrence_rate", {"recurrence_rate": 0.3}),
        ("local_recurrence_rate", {"local_recurrence_rate": 0.4})]
    for cls in ("RecurrencePlot", "RecurrenceNetwork"):
        for variant, par in pars:
            acc.evals += 1
            try:
                rp = _mk_rp(cls, x, metric, kw, **par)
            except Exception as e:   # noqa
                acc.v("%s.__init__:raises:normalize" % cls, _exc(e), _exc(e),
                      "an object")
                continue
            if not np.array_equal(x, x0):
                acc.v("%s.__init__:modifies-input:normalize" % cls,
                      "the caller's series was normalised in place", x, x0)
                x[...] = x0
            ts_ = np.asarray(rp.time_series, dtype=float)
            if ts_.shape != want.shape or not np.allclose(ts_, want,
                                                          atol=2e-5, rtol=0):
                acc.v("%s.time_series:value:normalize" % cls,
                      "stored series is not (x - mean) / std per component "
                      "(%s)" % tag, ts_, want)
                continue
            E = np.asarray(rp.embedding, dtype=float)
            if E.shape != wantE.shape or not np.allclose(E, wantE, atol=2e-5,
                                                         rtol=0):
                acc.v("%s.embedding:value:normalize" % cls,
                      "state vectors are not the embedding of the normalised "
                      "series (%s)" % tag, E, wantE)
                continue
            D = _metric_dist(np.asarray(rp.embedding), metric)
            R = np.asarray(rp.recurrence_matrix())
            if variant == "threshold":
                t = par["threshold"]
                judged = np.abs(D - t) > 1e-5
                exp = (D < t).astype(int)
                if R.shape != exp.shape or (R != exp)[judged].any():
                    acc.v("%s.recurrence_matrix:value:normalize:%s" % (
                        cls, variant), "R is not the thresholded distance "
                        "matrix of the normalised states (%s, %s)" % (
                            tag, metric), R, exp)
            elif variant == "recurrence_rate":
                # R = D < eps for ONE eps, and the rate is the request up to
                # the pairs tied at eps
                inside = D[R.astype(bool)]
                outside = D[~R.astype(bool)]
                if inside.size and outside.size and \
                        inside.max() > outside.min() + 1e-5:
                    acc.v("%s.recurrence_matrix:value:normalize:%s" % (
                        cls, variant), "R is not a threshold cut of the "
                        "distances of the normalised states (%s, %s)" % (
                            tag, metric), float(inside.max()),
                        float(outside.min()))
            else:
                for i in range(len(R)):
                    ins = D[i][R[i].astype(bool)]
                    out = D[i][~R[i].astype(bool)]
                    if ins.size and out.size and ins.max() > out.min() + 1e-5:
                        acc.v("%s.recurrence_matrix:value:normalize:%s" % (
                            cls, variant), "row %d of R is not a threshold "
                            "cut of the distances (%s, %s)" % (i, tag, metric),
                            float(ins.max()), float(out.min()))
                        break
            acc.see(R.tolist())
            if cls == "RecurrenceNetwork":
                A = np.asarray(rp.adjacency)
                expA = R - np.eye(len(R), dtype=R.dtype)
                if A.shape != expA.shape or not np.array_equal(A, expA):
                    acc.v("RecurrenceNetwork.adjacency:value:normalize",
                          "adjacency is not R without its diagonal", A, expA)
    return acc.result(False)


OFFSETS = [0.0, 2.0 ** 23, 12000000.0, -(2.0 ** 24 - 1)]
OFF_THR = [0.3, 0.8]


def _off_dist(X, Y, metric):
    d = np.abs(X[:, None, :] - Y[None, :, :])
    if metric == "manhattan":
        return d.sum(axis=2)
    if metric == "supremum":
        return d.max(axis=2)
    return np.sqrt((d * d).sum(axis=2))


def fam_offset(case):
    """State vectors far from the origin and close to each other: one
    component is a large constant (an integer below 2^24, exact in the single
    precision the library stores), the others are small dyadic values, so the
    pairwise differences - the only thing a recurrence plot may depend on -
    are exact and no realised distance lies within 0.04 of a threshold."""
    from pyunicorn.timeseries import RecurrencePlot, RecurrenceNetwork, \
        CrossRecurrencePlot, JointRecurrencePlot
    name, n, off, metric = case
    acc = Acc()
    a, b = _pattern(name, n), _pattern("qres", n)
    c = np.full(n, off)
    X = np.stack([c, a, b], axis=1)
    Y = np.stack([c, b[::-1], a[::-1]], axis=1)[:max(2, n - 3)]
    tag = "offset>=2^23" if off else "offset=0"
    D = _off_dist(X, X, metric)
    Dxy = _off_dist(X, Y, metric)
    for t in OFF_THR:
        exp = (D < t).astype(int)
        for cls in (RecurrencePlot, RecurrenceNetwork):
            acc.evals += 1
            rp = cls(X.copy(), metric=metric, threshold=t, normalize=False,
                     silence_level=3)
            got = np.asarray(rp.distance_matrix(metric))
            if got.shape != D.shape or not np.allclose(got, D, rtol=1e-6,
                                                       atol=1e-6):
                acc.v("%s.distance_matrix:value:%s:%s" % (
                    cls.__name__, metric, tag), "distances of dyadic state "
                    "vectors are not the %s norms of their differences" %
                    metric, got[0, :6], D[0, :6])
            R = np.asarray(rp.recurrence_matrix())
            if R.shape != exp.shape or not np.array_equal(R, exp):
                acc.v("%s.recurrence_matrix:value:%s:%s" % (
                    cls.__name__, metric, tag), _diff(R, exp))
            acc.see(R.sum())
        acc.evals += 2
        crp = CrossRecurrencePlot(X.copy(), Y.copy(), metric=metric,
                                  threshold=t, normalize=False,
                                  silence_level=3)
        CR = np.asarray(crp.recurrence_matrix())
        expc = (Dxy < t).astype(int)
        if CR.shape != expc.shape or not np.array_equal(CR, expc):
            acc.v("CrossRecurrencePlot.recurrence_matrix:value:%s:%s" % (
                metric, tag), _diff(CR, expc))
        Yj = np.stack([c, b[::-1], a[::-1]], axis=1)
        jrp = JointRecurrencePlot(X.copy(), Yj.copy(), metric=(metric, metric),
                                  threshold=(t, t), normalize=False,
                                  silence_level=3)
        JR = np.asarray(jrp.recurrence_matrix())
        expj = exp * (_off_dist(Yj, Yj, metric) < t).astype(int)
        if JR.shape != expj.shape or not np.array_equal(JR, expj):
            acc.v("JointRecurrencePlot.recurrence_matrix:value:%s:%s" % (
                metric, tag), _diff(JR, expj))
        acc.see(CR.sum(), JR.sum())
    return acc.result(False)


FAMILIES = {"rp": fam_rp, "cross": fam_cross, "joint": fam_joint,
            "isrn": fam_isrn, "scale": fam_scale, "normalize": fam_normalize,
            "offset": fam_offset}


# --------------------------------------------------------------------------
# enumeration

def _seqs(alpha, lmin, lmax):
    for L in range(lmin, lmax + 1):
        for s in itertools.product(alpha, repeat=L):
            yield list(s)


SQ = [[0.0, 0.0], [0.0, 1.0], [1.0, 0.0], [1.0, 1.0]]


def _rp_cases(lmax):
    out, skipped = [], 0
    for s in _seqs(ALPHA, 1, lmax):
        for emb in EMBS:
            if _n_embedded(len(s), emb) < 1:
                skipped += 1
                continue
            out.append({"x": s, "emb": emb, "mv": False})
    # the missing-value code path on clean data
    for s in _seqs(ALPHA, 1, 3):
        out.append({"x": s, "emb": None, "mv": True})
    # every NaN pattern: sequences over the alphabet + {missing}
    for s in _seqs(ALPHA + [None], 1, 4):
        if None not in s:
            continue
        for emb in EMBS:
            if _n_embedded(len(s), emb) < 1:
                skipped += 1
                continue
            out.append({"x": s, "emb": emb, "mv": True})
    # two-dimensional series
    for L in range(1, 4):
        for s in itertools.product(SQ, repeat=L):
            s = [list(p) for p in s]
            out.append({"x": s, "emb": None, "mv": False})
            for mask in range(1, 1 << L):
                t = [list(p) for p in s]
                for i in range(L):
                    if mask >> i & 1:
                        t[i][i % 2] = None
                out.append({"x": t, "emb": None, "mv": True})
    out.sort(key=lambda c: len(c["x"]))
    return out, skipped


def _cross_cases(thorough):
    out = []
    for x in _seqs(ALPHA, 1, 3):
        for y in _seqs(ALPHA, 1, 3):
            out.append({"x": x, "y": y, "emb": None})
    # pairs involving a series of length 4: three letters; thorough also the
    # full alphabet against the short partners
    for x in _seqs(ALPHA3, 1, 4):
        for y in _seqs(ALPHA3, 1, 4):
            if max(len(x), len(y)) < 4:
                continue
            if not thorough and min(len(x), len(y)) > 2:
                continue
            out.append({"x": x, "y": y, "emb": None})
    if thorough:
        for a in _seqs(ALPHA, 4, 4):
            for b in _seqs(ALPHA, 1, 2):
                if set(a) | set(b) <= set(ALPHA3):
                    continue            # already listed above
                out.append({"x": a, "y": b, "emb": None})
                out.append({"x": b, "y": a, "emb": None})
    # embedding (the same for both series)
    for emb in EMBS[1:]:
        need = (emb[0] - 1) * emb[1] + 1
        alpha = ALPHA3 if thorough else [0.0, 0.5]
        for x in _seqs(alpha, need, 4):
            for y in _seqs(alpha, need, 4):
                out.append({"x": x, "y": y, "emb": emb})
    # two-dimensional
    for lx in range(1, 3):
        for ly in range(1, 4):
            for x in itertools.product(SQ, repeat=lx):
                for y in itertools.product(SQ, repeat=ly):
                    out.append({"x": [list(p) for p in x],
                                "y": [list(p) for p in y], "emb": None})
    out.sort(key=lambda c: len(c["x"]) + len(c["y"]))
    return out


J_EMBS = [((2, 1), (2, 1)), ((2, 1), (2, 2)), ((3, 1), (2, 1))]


def _joint_cases(thorough):
    out, skipped = [], 0
    for n in range(1, 5):
        if n <= 2 or (n == 3 and thorough):
            alpha = ALPHA
        elif n == 3 or thorough:
            alpha = ALPHA3
        else:
            alpha = [0.0, 2.0]
        for x in itertools.product(alpha, repeat=n):
            for y in itertools.product(alpha, repeat=n):
                for lag in (0, 1, -1, 2, -2):
                    if abs(lag) >= n:
                        skipped += 1
                        continue
                    if n == 4 and thorough and lag in (-1, 2) and \
                            (set(x) | set(y)) - {0.0, 2.0}:
                        continue    # length 4: all five lags on two letters
                    out.append({"x": list(x), "y": list(y), "lag": lag,
                                "emb": None})
    for emb in J_EMBS:
        for n in range(2, 5):
            m = min(_n_embedded(n, emb[0]), _n_embedded(n, emb[1]))
            if n == 2 or (n == 3 and thorough):
                alpha = ALPHA3
            else:
                alpha = [0.0, 2.0]
            for x in itertools.product(alpha, repeat=n):
                for y in itertools.product(alpha, repeat=n):
                    for lag in (0, 1, -1, 2, -2):
                        if m < 1 or abs(lag) >= m:
                            skipped += 1
                            continue
                        out.append({"x": list(x), "y": list(y), "lag": lag,
                                    "emb": [list(emb[0]), list(emb[1])]})
    # two-dimensional pairs
    for n in range(1, 3):
        for x in itertools.product(SQ, repeat=n):
            for y in itertools.product(SQ, repeat=n):
                for lag in (0, 1, -1):
                    if abs(lag) < n:
                        out.append({"x": [list(p) for p in x],
                                    "y": [list(p) for p in y], "lag": lag,
                                    "emb": None})
    out.sort(key=lambda c: (len(c["x"]), abs(c["lag"])))
    return out, skipped


I_EMBS = [(2, (1, 1)), (2, (1, 2)), (3, (1, 1))]


def _isrn_cases(thorough):
    out = []
    for x in _seqs(ALPHA3, 1, 4):
        for y in _seqs(ALPHA3, 1, 4):
            small = len(x) <= 2 and len(y) <= 2
            if not thorough and len(x) + len(y) > 6:
                continue
            k = (len(x) + len(y) + int(2 * sum(x) + 2 * sum(y))) % 3
            out.append({"x": x, "y": y, "emb": None, "metrics":
                        list(METRICS) if small else [METRICS[k]]})
    for x in _seqs(ALPHA, 1, 2):
        for y in _seqs(ALPHA, 1, 3):
            out.append({"x": x, "y": y, "emb": None, "metrics": None})
    for emb in I_EMBS:
        nx = (emb[0] - 1) * emb[1][0] + 1
        ny = (emb[0] - 1) * emb[1][1] + 1
        for x in _seqs(ALPHA3 if thorough else [0.0, 2.0], nx, 4):
            for y in _seqs(ALPHA3 if thorough else [0.0, 2.0], ny, 4):
                if len(x) + len(y) >= 7 and (set(x) | set(y)) - {0.0, 2.0}:
                    continue        # (3,4), (4,3), (4,4): two letters only
                out.append({"x": x, "y": y, "emb": [emb[0], list(emb[1])],
                            "metrics": None})
    for lx in range(1, 3):
        for ly in range(1, 3):
            for x in itertools.product(SQ, repeat=lx):
                for y in itertools.product(SQ, repeat=ly):
                    out.append({"x": [list(p) for p in x],
                                "y": [list(p) for p in y], "emb": None,
                                "metrics": None})
    out.sort(key=lambda c: len(c["x"]) + len(c["y"]))
    return out


def run(ctx):
    thorough = ctx.tier == "thorough"
    lmax = 5 if thorough else 4
    ctx.rule = (
        "rp: every scalar series of length 1..%d over %s x embeddings %s, "
        "every series over the alphabet + {NaN} of length <=4 with "
        "missing_values=True, every 2-D series of length <=3 over {0,1}^2 "
        "with every NaN pattern; for each: 3 metrics x (every realised "
        "distance, every midpoint, 0, 1024 as threshold; threshold_std %s; "
        "global and local rates %s; adaptive sizes 1..N-2), each as "
        "RecurrencePlot and RecurrenceNetwork with all RQA methods called.  "
        "cross / joint / isrn: all pairs of series within the stated length "
        "and alphabet bounds (see bounds), lags -2..2.  A case is trivial "
        "when the plot has a single entry; distinct = distinct tuples of all "
        "matrices and line histograms observed for the case.  scale: a "
        "fixed list of structured dyadic series with 130..300 samples "
        "(patterns saw/steps/blocks/squares/qres, NaN at positions around "
        "0/128/256/end), vectorised oracle." % (
            lmax, ALPHA, EMBS, STD_MENU, RATES))
    only = [f for f in os.environ.get("VERIF_C07_FAMILIES", "").split(",")
            if f]                      # development aid: run some families
    if only:
        ctx.exhaustive = False
        ctx.notes["families_run"] = only
    cases, sk = _rp_cases(lmax)
    cc = _cross_cases(thorough)
    jc, sk2 = _joint_cases(thorough)
    ic = _isrn_cases(thorough)
    if not only or "rp" in only:
        ctx.excluded["embedding longer than the series (no state vector)"] = \
            sk
        ctx.explore("rp", cases, desc="RecurrencePlot / RecurrenceNetwork")
    if not only or "cross" in only:
        ctx.explore("cross", cc, desc="CrossRecurrencePlot, unequal lengths")
    if not only or "joint" in only:
        ctx.excluded["|lag| >= number of joint states"] = sk2
        ctx.explore("joint", jc, desc="JointRecurrencePlot/Network with lag")
    if not only or "isrn" in only:
        ctx.explore("isrn", ic, desc="InterSystemRecurrenceNetwork")
    if not only or "normalize" in only:
        nc = [[nm, emb, met] for nm in NORM_SERIES
              for emb in ([None, [2, 1], [3, 2]] if nm in ("scalar", "offset")
                          else [None])
              for met in METRICS]
        ctx.explore("normalize", nc, chunk=1, desc="normalize=True: stored "
                    "series, state vectors and R of plots and networks")
    if not only or "offset" in only:
        oc = [[nm, n, off, met] for nm in ("saw", "steps", "squares")
              for n in ([17, 40] + ([131] if thorough else []))
              for off in OFFSETS for met in METRICS]
        ctx.explore("offset", oc, chunk=1, desc="3-D dyadic trajectories "
                    "with one constant component 0, 2^23, 1.2e7, -(2^24-1): distances "
                    "and R of RP/RN/cross/joint plots vs norms of differences")
    sc = _scale_cases(thorough)
    if not only or "scale" in only:
        ctx.explore("scale", sc, chunk=1, desc="130..300 state vectors: "
                    "every way of choosing the threshold, cross (150,209), "
                    "joint lag +-40, inter-system (130,90)")
    ctx.notes.update({
        "rp_scalar_length_max": lmax, "rp_nan_length_max": 4,
        "rp_2d_length_max": 3, "rp_cases": len(cases),
        "cross_cases": len(cc), "cross_lengths": "(1..4)x(1..4)",
        "joint_cases": len(jc), "joint_lengths": "1..4", "lags": "-2..2",
        "isrn_cases": len(ic), "isrn_lengths": "(1..4)x(1..4)",
        "scale_cases": len(sc), "scale_sizes": [130, 150, 209, 300] + (
            [263] if thorough else []), "scale_lags": [0, 1, 40, -40]})
    ctx.assumptions += [
        "all alphabets are dyadic, so the float32 storage of the library is "
        "exact and the oracle decides every comparison in rational "
        "arithmetic (euclidean: on squared distances)",
        "thresholds equal to an irrational euclidean distance are not used "
        "(the float64 square root cannot represent the boundary)",
        "threshold_std cases where threshold_std*std coincides with a "
        "distance and std is not exact in float32 are excluded",
        "with NaN present the rate/local/adaptive variants are judged only "
        "for 'never recurrent at a missing value'",
        "RecurrenceNetwork removes missing states from the node set "
        "(documented in the constructor); the adjacency is compared on the "
        "remaining states"]
