"""C17  Random models and rewirings keep their documented invariants.

"For every seed" is checked as "for every sequence of answers the random
source can give": every random seam of the operation (igraph's generator, the
extension-module globals `rd` and `randint`, `numpy.random` as imported by
network.py / spatial_network.py / interacting_networks.py) is replaced by
choice points (refmodel/randnets.py) and all executions with at most b
deviations from the seeded default answers are run on the real library, each
to completion under an explicit horizon.  The invariants of the operation are
evaluated on EVERY completed execution.

All families share one function; a case is one (operation, input,
parameters); the family runs
the whole bounded DFS for it, by iterative deepening: b = 1, 2, ... <= bmax as
long as the number of executions of the next level (known exactly from the
menus seen) fits the per-case budget; the bound completed is reported per
case in stats.  A case may carry "choices": then
exactly that execution is run (minimal replay).
"""
import hashlib

import numpy as np

from ..core import V
from ..choice import Horizon
from ..domains import adj, iso, is_connected, mask_of
from ..refmodel import randnets as ref

LEVEL = "model_checking"
KERNEL_HORIZON = 200
IGRAPH_HORIZON = 80

# connected graphs on 6 nodes with <= 8 links, one per isomorphism class
# (computed once with mc.domains.iso(6); verified at start-up to be connected,
# within the link bound and pairwise different in a canonical invariant)
ISO6_CONNECTED_LE8 = [
    31, 61, 121, 122, 659, 692, 63, 123, 126, 246, 633, 663, 691, 693, 694,
    700, 760, 922, 1880, 127, 247, 254, 635, 671, 695, 701, 758, 761, 762,
    923, 926, 954, 956, 1749, 1780, 1881, 1884, 5907, 255, 510, 639, 703,
    759, 763, 766, 927, 955, 957, 958, 1751, 1781, 1788, 1883, 1885, 1916,
    2012, 5873, 5911, 5941, 5948]


def _exc(e):
    return ("exc", type(e).__name__, repr(e)[:200])


def _guard(f):
    """Run the library call; Horizon and seam errors pass, everything else is
    an observation."""
    try:
        return f()
    except (Horizon, ref.SeamError):
        raise
    except Exception as e:   # noqa  (the library raises many kinds)
        return _exc(e)


def _A(case):
    if "edges" in case:
        A = np.zeros((case["n"], case["n"]), dtype=int)
        for i, j in case["edges"]:
            A[i, j] = A[j, i] = 1
        return A
    n, mask = case["g"]
    return adj(n, False, mask).astype(int)


def _first(*checks):
    """Evaluate lazily, return the first defect [(cls, text, obs, exp)]."""
    for c in checks:
        r = c()
        if r:
            return [r]
    return []


# ---------------------------------------------------------------------------
# operations: each returns (run_fn, judge, horizon, excluded_reason,
# admissible) -- admissible: does the reference model see an admissible first
# swap (None where the operation has no retry-until-admissible loop)


def op_rewire_directed(case, seed):
    """Degree-preserving rewiring of a DIRECTED network: every node keeps its
    in-degree and its out-degree, the result is loop-free with 0/1 entries."""
    n = case["n"]
    A0 = np.zeros((n, n), dtype=int)
    for i, j in case["dedges"]:
        A0[i, j] = 1
    it = case["it"]
    name = "Network.randomly_rewire"
    out0, in0 = A0.sum(axis=1).tolist(), A0.sum(axis=0).tolist()
    if A0.sum() < 2:
        return None, None, 0, "fewer than two links: nothing to rewire", None

    def run_fn(cr):
        from pyunicorn.core import Network
        net = Network(adjacency=A0.copy(), directed=True, silence_level=3)
        with ref.igraph_rng(cr, seed):
            def f():
                net.randomly_rewire(it)
                return ("ok", np.array(net.adjacency, dtype=int), int(net.N))
            return _guard(f)

    def judge(o):
        if o[0] == "exc":
            return [(name + ":raises:" + o[1], o[2], o[2], "rewired network")]
        A1, N1 = o[1], o[2]
        if N1 != n or A1.shape != (n, n):
            return [(name + ":node-count:directed", "network has %d nodes "
                     "after rewiring, had %d" % (N1, n), N1, n)]
        if np.diag(A1).any() or not np.isin(A1, (0, 1)).all():
            return [(name + ":not-simple:directed", "loops or entries other "
                     "than 0/1", A1, "simple directed graph")]
        if A1.sum(axis=1).tolist() != out0:
            return [(name + ":out-degree:directed", "out-degree sequence "
                     "changed", A1.sum(axis=1).tolist(), out0)]
        if A1.sum(axis=0).tolist() != in0:
            return [(name + ":in-degree:directed", "in-degree sequence "
                     "changed", A1.sum(axis=0).tolist(), in0)]
        return []
    return run_fn, judge, IGRAPH_HORIZON, None, None


def op_rewire(case, seed):
    if case.get("dedges") is not None:
        return op_rewire_directed(case, seed)
    A0 = _A(case)
    n = len(A0)
    it = case["it"]
    name = "Network.randomly_rewire"
    deg0 = ref.degrees(A0)
    if sum(deg0) // 2 < 2:
        return None, None, 0, "fewer than two links: nothing to rewire", None

    def run_fn(cr):
        from pyunicorn.core import Network
        net = Network(adjacency=A0.copy(), silence_level=3)
        with ref.igraph_rng(cr, seed):
            def f():
                net.randomly_rewire(it)
                return ("ok", np.array(net.adjacency, dtype=int), int(net.N))
            return _guard(f)

    def judge(o):
        if o[0] == "exc":
            return [(name + ":raises:" + o[1], o[2], o[2], "rewired network")]
        A1, N1 = o[1], o[2]
        if N1 != n or A1.shape != (n, n):
            k = n - 1
            while k >= 0 and deg0[k] == 0:
                k -= 1
            cls = "isolated-last-node" if k < n - 1 else "other"
            return [(name + ":node-count:" + cls, "network has %d nodes "
                     "after rewiring, had %d" % (N1, n), N1, n)]
        d = ref.simple_defect(A1, n)
        if d:
            return [(name + ":not-simple", d, A1, "simple graph")]
        if ref.degrees(A1) != deg0:
            return [(name + ":degree", "degree sequence changed",
                     ref.degrees(A1), deg0)]
        return []
    return run_fn, judge, IGRAPH_HORIZON, None, None


def _grid(case, n):
    """(class name, constructor of a fresh network, distance matrix)."""
    pts = ref.point_sets(n)[case["pts"]]
    D = ref.euclid(pts)

    def make(A):
        if case.get("cls", "spatial") == "geo":
            from pyunicorn.core import GeoNetwork, GeoGrid
            lat = np.array([10.0 * p[1] for p in pts])
            lon = np.array([10.0 * p[0] for p in pts])
            g = GeoGrid(np.arange(2.0), lat, lon, silence_level=3)
            return GeoNetwork(g, adjacency=A, silence_level=3)
        from pyunicorn.core import SpatialNetwork, Grid
        g = Grid(np.arange(2.0), np.array(pts, dtype=float).T.copy(),
                 silence_level=3)
        return SpatialNetwork(g, adjacency=A, silence_level=3)
    return make, D


def op_geo(case, seed):
    A0 = _A(case)
    n = len(A0)
    model, it, eps = case["model"], case["it"], float(case["eps"])
    name = "SpatialNetwork.randomly_rewire_geomodel_" + model
    deg0 = ref.degrees(A0)
    E = sum(deg0) // 2
    if E < 2:
        return None, None, 0, "fewer than two links: nothing to rewire", None
    make, D = _grid(case, n)
    Dl = D.astype(float).tolist()
    tol = it * float(np.float32(eps)) + 1e-4
    len0 = ref.link_lengths(A0, Dl)
    nlen0 = [ref.node_link_lengths(A0, Dl, v) for v in range(n)]
    dp0 = ref.degree_pairs(A0, deg0)

    def run_api(cr):
        import pyunicorn.core._ext.numerics as ext
        net = make(A0.copy())
        old = ext.rd
        ext.rd = ref.KernelRd(cr, seed, E)
        try:
            def f():
                getattr(net, "randomly_rewire_geomodel_" + model)(
                    D.copy(), it, eps)
                return ("ok", np.array(net.adjacency, dtype=int), int(net.N))
            return _guard(f)
        finally:
            ext.rd = old

    kernel_args = {}

    def run_kernel(cr):
        # the compiled kernel on the arrays the method hands to it (the
        # method itself is exercised by the "api" level of the same case
        # list): 50x cheaper per execution, hence deeper bounds
        import pyunicorn.core._ext.numerics as ext
        from pyunicorn.core._ext.types import to_cy, ADJ, FIELD, NODE, DEGREE
        if not kernel_args:
            net = make(A0.copy())
            kernel_args["edges"] = np.array(net.graph.get_edgelist())
            kernel_args["degree"] = np.array(net.degree())
        A = to_cy(A0.copy(), ADJ)
        Dk = to_cy(D.copy(), FIELD)
        edges = to_cy(kernel_args["edges"].copy(), NODE)
        old = ext.rd
        ext.rd = ref.KernelRd(cr, seed, E)
        try:
            def f():
                fn = getattr(ext, "_randomly_rewire_geomodel_" + model)
                if model == "III":
                    fn(it, eps, A, Dk, E, edges,
                       to_cy(kernel_args["degree"], DEGREE))
                else:
                    fn(it, eps, A, Dk, E, edges)
                return ("ok", np.array(A, dtype=int), n)
            return _guard(f)
        finally:
            ext.rd = old

    run_fn = run_kernel if case.get("level") == "kernel" else run_api

    def judge(o):
        if o[0] == "exc":
            return [(name + ":raises:" + o[1], o[2], o[2], "rewired network")]
        A1, N1 = o[1], o[2]
        if N1 != n or A1.shape != (n, n):
            return [(name + ":node-count", "%d nodes, had %d" % (N1, n),
                     N1, n)]
        d = ref.simple_defect(A1, n)
        if d:
            return [(name + ":not-simple", d, A1, "simple graph")]
        if ref.degrees(A1) != deg0:
            return [(name + ":degree", "degree sequence changed",
                     ref.degrees(A1), deg0)]
        len1 = ref.link_lengths(A1, Dl)
        if ref.max_sorted_drift(len0, len1) >= tol:
            return [(name + ":link-lengths", "sorted link lengths moved by "
                     "%.6g >= iterations*inaccuracy = %.6g" % (
                         ref.max_sorted_drift(len0, len1), tol), len1, len0)]
        if model in ("II", "III"):
            for v in range(n):
                l1 = ref.node_link_lengths(A1, Dl, v)
                if ref.max_sorted_drift(nlen0[v], l1) >= tol:
                    return [(name + ":node-link-lengths", "link lengths at "
                             "node %d moved by more than iterations*"
                             "inaccuracy" % v, l1, nlen0[v])]
        if model == "III":
            dp1 = ref.degree_pairs(A1, deg0)
            if dp1 != dp0:
                return [(name + ":degree-pairs", "multiset of degree pairs "
                         "of the links changed", dp1, dp0)]
        return []
    adm = ref.geo_swap_admissible(A0.tolist(), Dl, eps, model, deg0,
                                  ref.links(A0))
    return run_fn, judge, KERNEL_HORIZON, None, adm


def _groups(case):
    return [int(v) for v in case["L1"]], [int(v) for v in case["L2"]]


def op_xrewire(case, seed):
    A0 = _A(case)
    n = len(A0)
    L1, L2 = _groups(case)
    k = case["it"]
    name = "InteractingNetworks.RandomlyRewireCrossLinks"
    X0 = ref.cross_block(A0, L1, L2)
    ncl = sum(map(sum, X0))
    if ncl < 2:
        return (None, None, 0,
                "fewer than two cross links: nothing to swap", None)
    swaps = (k + 0.25) / ncl            # NODE(swaps*ncl) == k
    rest0 = ref.outside_cross_block(A0, L1, L2)
    r0 = [sum(r) for r in X0]
    c0 = [sum(c) for c in zip(*X0)]

    def run_fn(cr):
        import pyunicorn.core._ext.numerics as ext
        from pyunicorn.core import InteractingNetworks
        net = InteractingNetworks(A0.copy(), silence_level=3)
        old = ext.randint
        ext.randint = ref.make_randint(cr, seed)
        try:
            def f():
                out = InteractingNetworks.RandomlyRewireCrossLinks(
                    net, list(L1), list(L2), swaps)
                return ("ok", np.array(out.adjacency, dtype=int), int(out.N),
                        np.array(net.adjacency, dtype=int))
            return _guard(f)
        finally:
            ext.randint = old

    def judge(o):
        if o[0] == "exc":
            return [(name + ":raises:" + o[1], o[2], o[2], "rewired network")]
        A1, N1, Ain = o[1], o[2], o[3]
        if N1 != n or A1.shape != (n, n):
            return [(name + ":node-count", "%d nodes, had %d" % (N1, n),
                     N1, n)]
        d = ref.simple_defect(A1, n)
        if d:
            return [(name + ":not-simple", d, A1, "simple graph")]
        if not np.array_equal(Ain, A0):
            return [(name + ":input-modified", "the input network changed",
                     Ain, A0)]
        if not np.array_equal(ref.outside_cross_block(A1, L1, L2), rest0):
            return [(name + ":internal-links", "links outside the cross "
                     "block changed", A1, A0)]
        X1 = ref.cross_block(A1, L1, L2)
        r1 = [sum(r) for r in X1]
        c1 = [sum(c) for c in zip(*X1)]
        if (r1, c1) != (r0, c0):
            return [(name + ":cross-degree", "cross degrees changed",
                     [r1, c1], [r0, c0])]
        return []
    return run_fn, judge, KERNEL_HORIZON, None, ref.cross_swap_admissible(X0)


def op_xset(case, seed):
    A0 = _A(case)
    n = len(A0)
    L1, L2 = _groups(case)
    sparse = case["variant"] == "sparse"
    name = "InteractingNetworks.RandomlySetCrossLinks" + (
        "_sparse" if sparse else "")
    X0 = ref.cross_block(A0, L1, L2)
    n1n2 = len(L1) * len(L2)
    mode = case["mode"]
    if mode[0] == "n":
        kw, want = {"number_cross_links": int(mode[1])}, int(mode[1])
    elif mode[0] == "density":
        kw = {"cross_link_density": float(mode[1])}
        want = float(mode[1]) * n1n2
        if abs(want - round(want)) > 1e-9:
            return None, None, 0, "density does not give a whole number", None
        want = int(round(want))
    else:
        kw, want = {}, sum(map(sum, X0))
    if want > n1n2:
        return None, None, 0, "more cross links requested than pairs", None
    rest0 = ref.outside_cross_block(A0, L1, L2)

    def run_fn(cr):
        import pyunicorn.core._ext.numerics as ext
        import pyunicorn.core.interacting_networks as im
        net = im.InteractingNetworks(A0.copy(), silence_level=3)
        old_ri, old_r = ext.randint, im.random
        ext.randint = ref.make_randint(cr, seed)
        im.random = ref.NetRandom(cr, seed + 1)
        try:
            def f():
                fn = (im.InteractingNetworks.RandomlySetCrossLinks_sparse
                      if sparse else
                      im.InteractingNetworks.RandomlySetCrossLinks)
                out = fn(net, list(L1), list(L2), **kw)
                return ("ok", np.array(out.adjacency, dtype=int), int(out.N),
                        np.array(net.adjacency, dtype=int))
            return _guard(f)
        finally:
            ext.randint, im.random = old_ri, old_r

    def judge(o):
        if o[0] == "exc":
            return [(name + ":raises:%s:mode=%s" % (o[1], mode[0]), o[2],
                     o[2], "network")]
        A1, N1, Ain = o[1], o[2], o[3]
        if N1 != n or A1.shape != (n, n):
            return [(name + ":node-count", "%d nodes, had %d" % (N1, n),
                     N1, n)]
        d = ref.simple_defect(A1, n)
        if d:
            return [(name + ":not-simple", d, A1, "simple graph")]
        if not np.array_equal(Ain, A0):
            return [(name + ":input-modified", "the input network changed",
                     Ain, A0)]
        if not np.array_equal(ref.outside_cross_block(A1, L1, L2), rest0):
            return [(name + ":internal-links", "links outside the cross "
                     "block changed", A1, A0)]
        got = sum(map(sum, ref.cross_block(A1, L1, L2)))
        if got != want:
            form = ""
            if mode[0] == "density" and got == int(float(mode[1]) * n1n2):
                form = "=int(density*pairs)"
            return [(name + ":cross-link-count:mode=" + mode[0] + form,
                     "%d cross links instead of %d (%s; %d pairs)" % (
                         got, want, mode, n1n2), got, want)]
        return []
    return run_fn, judge, KERNEL_HORIZON, None, None


def op_dist(case, seed):
    A0 = _A(case)
    n = len(A0)
    a, b = case["ab"]
    name = "SpatialNetwork.set_random_links_by_distance"
    make, _ = _grid(case, n)

    def run_fn(cr):
        import pyunicorn.core.spatial_network as sm
        net = make(A0.copy())
        old = sm.random
        sm.random = ref.NetRandom(cr, seed)
        try:
            def f():
                net.set_random_links_by_distance(a, b)
                return ("ok", np.array(net.adjacency, dtype=int), int(net.N),
                        bool(net.directed))
            return _guard(f)
        finally:
            sm.random = old

    def judge(o):
        if o[0] == "exc":
            return [(name + ":raises:" + o[1], o[2], o[2], "network")]
        A1, N1 = o[1], o[2]
        if N1 != n or A1.shape != (n, n):
            return [(name + ":node-count", "%d nodes, had %d" % (N1, n),
                     N1, n)]
        d = ref.simple_defect(A1, n)
        if d:
            return [(name + ":not-simple", d, A1,
                     "undirected loop-free network")]
        if o[3]:
            return [(name + ":directed", "network became directed", True,
                     False)]
        return []
    return run_fn, judge, KERNEL_HORIZON, None, None


def op_model(case, seed):
    kind = case["kind"]
    kw = dict(case["kw"])
    igraph_based = kind != "BarabasiAlbert"
    name = "Network." + kind
    if kind == "ErdosRenyi":
        n = kw["n_nodes"]
        name += "[n_links]" if "n_links" in kw else "[link_probability]"
    elif kind in ("BarabasiAlbert", "BarabasiAlbert_igraph"):
        n = kw["n_nodes"]
    elif kind == "Configuration":
        n = len(kw["degree"])
    else:
        n = kw["N"]

    def run_fn(cr):
        import pyunicorn.core.network as nm

        def f():
            net = nm.Network.Model(kind, **kw)
            return ("ok", np.array(net.adjacency, dtype=int), int(net.N),
                    int(net.n_links))
        if igraph_based:
            with ref.igraph_rng(cr, seed):
                return _guard(f)
        old = nm.random
        nm.random = ref.NetRandom(cr, seed, int(case.get("idx_span", 256)))
        try:
            return _guard(f)
        finally:
            nm.random = old

    def judge(o):
        if o[0] == "exc":
            return [(name + ":raises:" + o[1], o[2], o[2], "network")]
        A1, N1, nl = o[1], o[2], o[3]
        if N1 != n or A1.shape != (n, n):
            return [(name + ":node-count", "%d nodes instead of %d" % (N1, n),
                     N1, n)]
        d = ref.simple_defect(A1, n)
        if d:
            return [(name + ":not-simple", d, A1, "simple graph")]
        links = ref.n_links_of(A1)
        if nl != links:
            return [(name + ":n_links-attribute", "n_links=%d but the "
                     "adjacency has %d links" % (nl, links), nl, links)]
        if kind == "ErdosRenyi" and "n_links" in kw and \
                links != kw["n_links"]:
            return [(name + ":link-count", "%d links instead of %d" % (
                links, kw["n_links"]), links, kw["n_links"])]
        if kind == "BarabasiAlbert":
            m = kw["n_links_each"]
            if links != m * (n - m):
                return [(name + ":link-count", "%d links instead of "
                         "n_links_each*(n_nodes-n_links_each) = %d" % (
                             links, m * (n - m)), links, m * (n - m))]
        if kind == "BarabasiAlbert_igraph":
            m = kw["n_links_each"]
            if links > m * (n - 1):
                return [(name + ":link-count", "%d links, more than "
                         "n_links_each per added node" % links, links,
                         "<= %d" % (m * (n - 1)))]
        if kind == "Configuration":
            deg = ref.degrees(A1)
            if any(a > b for a, b in zip(deg, kw["degree"])):
                return [(name + ":degree-exceeds-request", "a node has more "
                         "links than requested", deg, kw["degree"])]
        return []
    return run_fn, judge, IGRAPH_HORIZON if igraph_based else KERNEL_HORIZON, \
        None, None


OPS = {"rewire": op_rewire, "geo": op_geo, "xrewire": op_xrewire,
       "xset": op_xset, "dist": op_dist, "model": op_model}


def _sig(o):
    if o[0] == "exc":
        return ("exc" + o[1]).encode()
    return hashlib.sha1(np.asarray(o[1]).tobytes()).digest()[:8]


def _same(a, b):
    if a[0] != b[0]:
        return False
    if a[0] == "exc":
        return a == b
    return all(np.array_equal(x, y) for x, y in zip(a[1:], b[1:]))


SHORT_HORIZON = 40
CONFIRM_HORIZON = 12     # when the reference model sees no admissible swap


def fam_op(case):
    seed = int(case.get("seed", 0))
    run_fn, judge, horizon, excl, adm = OPS[case["op"]](case, seed)
    if excl:
        return {"viol": [], "evals": 0, "trivial": True,
                "excluded": {"operation undefined: " + excl: 1}}
    stats = {}
    snap = ref.unmodelled_snapshot()
    horizon = int(case.get("horizon", horizon))
    if case.get("choices") is not None:
        bound = None
        r = ref.drive(run_fn, judge, _sig, bound, horizon,
                      choices=case["choices"])
    elif int(case.get("bmax", 2)) == 0:
        bound = 0
        r = ref.drive(run_fn, judge, _sig, 0, horizon)
    elif case.get("strict_budget"):
        # scale inputs: the default execution first; deviations only while
        # the (exactly known) size of the next level fits the budget
        bound = 0
        r = ref.drive(run_fn, judge, _sig, 0, horizon)
        while (bound < int(case["bmax"]) and r["cut"] == 0 and
               r["states"] + r["next_level"] <= int(case["budget"])):
            bound += 1
            r = ref.drive(run_fn, judge, _sig, bound, horizon)
    elif ref.default_is_cut(run_fn, horizon):
        # the all-default execution does not end within the full horizon:
        # look for an end among the single deviations within the first
        # SHORT_HORIZON draws (CONFIRM_HORIZON when the reference model says
        # that no admissible swap exists at all)
        bound = 1
        horizon = CONFIRM_HORIZON if adm is False else SHORT_HORIZON
        stats["default_execution_cut"] = 1
        r = ref.drive(run_fn, judge, _sig, bound, horizon)
    else:
        bound, r = ref.deepen(run_fn, judge, _sig, horizon,
                              int(case.get("bmax", 2)),
                              int(case.get("budget", 1000)))
    if case.get("choices") is None:
        ref.selftest_replay(run_fn, r["sample"], horizon, _same)
    completed = r["states"] - r["cut"]
    excluded = {}
    if completed == 0 and case.get("choices") is None:
        if adm is False:
            excluded["operation undefined: no admissible swap exists "
                     "(reference model) and no execution ended within the "
                     "horizon"] = 1
        else:
            excluded["no explored answer sequence ended within the horizon "
                     "(reported as cut, not covered)"] = 1
    if adm is False and completed:
        stats["completed_although_model_sees_no_admissible_swap"] = 1
    stats.update(ref.unmodelled_stats(snap))
    stats.update({"cut": r["cut"], "max_deviations": bound or 0,
                  "distinct_outputs": len(r["sigs"]),
                  "cases_at_bound_%s" % (bound,): 1})
    label = {k: v for k, v in case.items()
             if k not in ("seed", "bmax", "budget", "edges")}
    return {"viol": [V(v["key"], "%s (horizon %d): %s" % (
                         label, horizon, v["msg"]), v["observed"],
                       v["expected"]) for v in r["viol"].values()],
            "evals": completed,
            "sig": hashlib.sha1(b"".join(sorted(r["sigs"]))).hexdigest(),
            "trivial": len(r["sigs"]) <= 1, "excluded": excluded,
            "stats": stats, "states": r["states"],
            "transitions": r["transitions"], "traces": r["traces"]}


FAMILIES = {"op": fam_op, "scale": fam_op, "rewire": fam_op,
            "geomodel": fam_op, "cross_rewire": fam_op, "cross_set": fam_op,
            "distance_kernel": fam_op, "models": fam_op}


# ---------------------------------------------------------------------------
# scale family: a fixed list of larger structured inputs, simplest first


def _lattice_edges(cols, rows, extra=()):
    e = []
    for i in range(cols * rows):
        if i % cols < cols - 1:
            e.append([i, i + 1])
        if i + cols < cols * rows:
            e.append([i, i + cols])
    return e + [list(x) for x in extra]


def _two_groups(n1, n2):
    """Interleaved labels: the groups are the first n1 / the remaining n2
    nodes of the sequence 5*i mod N."""
    n = n1 + n2
    order = [(5 * i) % n for i in range(n)]
    assert sorted(order) == list(range(n))
    return sorted(order[:n1]), sorted(order[n1:])


def _cross_network(n1, n2, L):
    """A network on n1+n2 nodes: a ring (or single link) inside each group
    and exactly L cross links, placed at the cells 5*c mod (n1*n2)."""
    L1, L2 = _two_groups(n1, n2)
    edges = []
    for grp in (L1, L2):
        if len(grp) == 2:
            edges.append([grp[0], grp[1]])
        elif len(grp) > 2:
            edges += [[grp[i], grp[(i + 1) % len(grp)]]
                      for i in range(len(grp))]
    pairs = n1 * n2
    for c in range(L):
        cell = (5 * c) % pairs
        edges.append([L1[cell // n2], L2[cell % n2]])
    return L1, L2, edges


def scale_cases(tier, seed):
    thorough = tier == "thorough"
    cases = []

    lim = 6000 if thorough else 1500

    def add(c, bmax, budget=None, **kw):
        c = dict(c, seed=seed, bmax=bmax, budget=budget or lim,
                 strict_budget=True)
        c.update(kw)
        cases.append(c)
    # own BarabasiAlbert: exact link count m*(N-m) on every execution
    for (n, m) in [(30, 2), (47, 3), (64, 5)] + (
            [(81, 3), (100, 2), (100, 5)] if thorough else []):
        add({"op": "model", "kind": "BarabasiAlbert",
             "kw": {"n_nodes": n, "n_links_each": m}, "idx_span": 8}, 1,
            2 * lim, horizon=20 * n * m)
    # igraph models
    add({"op": "model", "kind": "ErdosRenyi",
         "kw": {"n_nodes": 40, "n_links": 100, "silence_level": 3}}, 1,
        horizon=2000)
    add({"op": "model", "kind": "Configuration",
         "kw": {"degree": [3] * 20 + [2] * 9 + [4]}}, 1, horizon=2000)
    add({"op": "model", "kind": "BarabasiAlbert_igraph",
         "kw": {"n_nodes": 34, "n_links_each": 3}}, 1, horizon=2000)
    add({"op": "model", "kind": "WattsStrogatz",
         "kw": {"N": 30, "k": 2, "p": 0.3}}, 1, horizon=4000)
    # randomly_rewire on 23 nodes: a 20-ring with chords, a 2-node
    # component and an isolated last node
    e23 = [[i, (i + 1) % 20] for i in range(20)] + [
        [0, 7], [3, 15], [5, 12], [9, 17], [20, 21]]
    for it in (1, 3, 10):
        add({"op": "rewire", "n": 23, "edges": e23, "it": it}, 1,
            horizon=400)
    # geographical models, tight tolerance: lattice points numbered
    # boustrophedon-wise, links along the rows (length 1) and a few
    # diagonals (sqrt2): an admissible swap turns two row links of one cell
    # into its two column links

    def rows_graph(cols, rows, extra):
        return [[r * cols + c, r * cols + c + 1] for r in range(rows)
                for c in range(cols - 1)] + [list(x) for x in extra]
    geo_inputs = [
        (12, rows_graph(4, 3, [(0, 6), (5, 11)]), "snake4"),
        (14, rows_graph(7, 2, [(0, 12), (3, 9)]), "snake7"),
        (16, rows_graph(4, 4, [(0, 6), (9, 15), (2, 4)]), "snake4")]
    for (n, edges, pts) in geo_inputs:
        for model in ("I", "II", "III"):
            for it in (1, 3, 10):
                p = {"op": "geo", "n": n, "edges": edges, "model": model,
                     "pts": pts, "eps": 0.02, "it": it}
                add(dict(p, level="kernel"), 1, horizon=4000)
                add(dict(p, level="api"), 1, lim // 2, horizon=4000)
        add({"op": "geo", "n": n, "edges": edges, "model": "I", "pts": pts,
             "eps": 0.02, "it": 3, "cls": "geo", "level": "api"}, 0,
            horizon=4000)
    # cross-link rewiring between groups of 7 and 14 nodes
    L1, L2, edges = _cross_network(7, 14, 30)
    for it in (1, 3):
        add({"op": "xrewire", "n": 21, "edges": edges, "L1": L1, "L2": L2,
             "it": it}, 1, horizon=2000)
    # set cross links: every existing count L, null-model mode and the
    # density L/pairs (must give exactly L links again)
    for (n1, n2) in ((2, 11), (7, 7), (7, 14), (12, 12)):
        pairs = n1 * n2
        for L in range(1, pairs + 1):
            L1, L2, edges = _cross_network(n1, n2, L)
            for variant in ("dense", "sparse"):
                for mode in (["keep"], ["density", L / pairs]):
                    deep = thorough and L in (1, 2, pairs // 2, pairs - 1)
                    add({"op": "xset", "n": n1 + n2, "edges": edges,
                         "L1": L1, "L2": L2, "variant": variant,
                         "mode": mode}, 1 if deep else 0, 1500,
                        horizon=60 * pairs)
    return cases


# ---------------------------------------------------------------------------
# enumeration


def _check_iso6():
    from ..domains import canon
    ms = ISO6_CONNECTED_LE8
    assert len(ms) == 60
    assert all(bin(m).count("1") <= 8 and is_connected(adj(6, False, m))
               for m in ms)
    assert len({canon(6, False, m) for m in ms}) == 60


def bipartitions(n, sizes=None):
    """Unordered bipartitions {L1, L2} of range(n), node 0 in L1."""
    out = []
    for bits in range(1 << (n - 1)):
        L1 = [0] + [i + 1 for i in range(n - 1) if bits >> i & 1]
        L2 = [i for i in range(n) if i not in L1]
        if L2 and (sizes is None or len(L1) in sizes):
            out.append((L1, L2))
    return out


PARTIAL = [([0, 1], [2, 3]), ([0, 2], [1, 4]), ([1, 3], [0, 2])]


def run(ctx):
    thorough = ctx.tier == "thorough"
    seed = ctx.seed
    _check_iso6()
    g5 = [(n, m) for (n, _, m) in iso(5)]
    g6 = [(6, m) for m in (ISO6_CONNECTED_LE8 if thorough
                           else ISO6_CONNECTED_LE8[2::4])]
    own = dict(bmax=3 if thorough else 2, budget=2000 if thorough else 400)
    own6 = dict(bmax=3 if thorough else 2, budget=1200 if thorough else 400)
    ig = dict(bmax=2, budget=1500 if thorough else 400)
    xs = dict(bmax=3 if thorough else 2, budget=700 if thorough else 300)
    its = (1, 2, 3)

    def reversed_labels(g):
        n, m = g
        return (n, mask_of(adj(n, False, m)[::-1, ::-1], False))

    def mk(op, g, extra, lim):
        c = {"op": op, "g": list(g), "seed": seed}
        c.update(extra)
        c.update(lim)
        return c

    # 1. igraph rewiring
    gr = []
    for g in g5 + g6:
        for h in (g, reversed_labels(g)):    # isolated nodes last / first
            if h not in gr:
                gr.append(h)
    cases = [mk("rewire", g, {"it": it}, ig) for g in gr for it in its]
    # directed networks: all isomorphism classes on 3 and 4 nodes with at
    # least two links (in- and out-degree sequences differ on most of them)
    from ..domains import iso as _iso, adj as _adj
    for nn in (3, 4):
        for (_, _, m) in _iso(nn, True):
            Ad = _adj(nn, True, m)
            if Ad.sum() < 2:
                continue
            de = [[int(i), int(j)] for i, j in zip(*np.nonzero(Ad))]
            for it in ((1, 2) if nn == 4 else its):
                c = {"op": "rewire", "n": nn, "dedges": de, "it": it,
                     "seed": seed}
                c.update(ig)
                cases.append(c)
    ctx.explore("rewire", cases, chunk=4, desc="Network.randomly_rewire "
                "(undirected iso(5)+connected 6-node graphs; directed "
                "iso(3..4))")
    # 2. geographical models
    cases = []
    api = dict(bmax=2, budget=400 if thorough else 200)
    deep = dict(bmax=4 if thorough else 3,
                budget=8000 if thorough else 3000)
    for g in g5 + g6:
        six = g[0] == 6
        for model in ("I", "II", "III"):
            for pts in ("line", "lattice", "general"):
                for eps in (0.5, 100.0):
                    for it in (its if (thorough and not six) else (1, 2)):
                        p = {"model": model, "pts": pts, "eps": eps, "it": it}
                        cases.append(mk("geo", g, dict(p, level="api"), api))
                        cases.append(mk("geo", g, dict(p, level="kernel"),
                                        deep))
            cases.append(mk("geo", g, {"model": model, "pts": "line",
                                       "eps": 0.0, "it": 1, "level": "api"},
                            dict(bmax=1, budget=1)))
            cases.append(mk("geo", g, {"model": model, "pts": "general",
                                       "eps": 100.0, "it": 1, "cls": "geo",
                                       "level": "api"}, api))
    ctx.explore("geomodel", cases, chunk=2,
                desc="randomly_rewire_geomodel_I/II/III"
                " (method: shallow; compiled kernel on the method's "
                "arguments: deep)")
    # 3. cross-link rewiring
    cases = []
    for g in g5 + g6:
        n = g[0]
        parts = bipartitions(n) if n == 5 else bipartitions(n, (2, 3, 4))
        if n == 5:
            parts = parts + PARTIAL
            if thorough:
                parts = parts + [(b, a) for (a, b) in bipartitions(n)]
        # node lists in another order than ascending (descending first list,
        # rotated second list): the invariants do not depend on list order
        parts = parts + [(a[::-1], b[1:] + b[:1]) for (a, b) in parts
                         if len(a) > 1 or len(b) > 1][::(1 if thorough
                                                         else 2)]
        for (L1, L2) in parts:
            for it in (its if n == 5 else (1, 2)):
                cases.append(mk("xrewire", g, {"L1": L1, "L2": L2,
                                               "it": it},
                                own if n == 5 else own6))
    ctx.explore("cross_rewire", cases, chunk=4,
                desc="RandomlyRewireCrossLinks")
    # 4. setting cross links
    cases = []
    parts5 = [([0], [1, 2, 3, 4]), ([0, 1], [2, 3, 4]), ([0, 2, 4], [1, 3]),
              ([1, 2, 3, 4], [0]), ([0, 1], [2, 3]),
              ([4, 0, 2], [3, 1]), ([3, 1], [2, 4, 0])]
    for g in (g5 if thorough else g5[::3]):
        for (L1, L2) in parts5:
            nn = len(L1) * len(L2)
            for variant in ("dense", "sparse"):
                for mode in (["n", 0], ["n", 1], ["n", 2], ["n", nn],
                             ["density", 0.5], ["keep"]):
                    cases.append(mk("xset", g, {"L1": L1, "L2": L2,
                                                "variant": variant,
                                                "mode": mode}, xs))
    ctx.explore("cross_set", cases, chunk=4,
                desc="RandomlySetCrossLinks(_sparse)")
    # 5. distance-kernel model
    cases = []
    for g in ((4, 0), (4, 63), (5, 0), (5, 75), (5, 1023)):
        for cls in ("spatial", "geo"):
            for pts in ("line", "lattice", "general"):
                for ab in ([0.0, -1.0], [-0.5, -0.5], [0.0, 0.0], [1.0, 0.0],
                           [-1.0, -2.0]):
                    cases.append(mk("dist", g, {"cls": cls, "pts": pts,
                                                "ab": ab},
                                    dict(bmax=2, budget=3500 if thorough
                                         else 400)))
    ctx.explore("distance_kernel", cases, chunk=2,
                desc="set_random_links_by_distance")
    # 6. model generators
    cases = []

    def model(kind, kw, lim):
        cases.append({"op": "model", "kind": kind, "kw": kw, "seed": seed,
                      **lim})
    for n in (4, 5):
        for p in (0.0, 0.3, 0.5, 1.0):
            model("ErdosRenyi", {"n_nodes": n, "link_probability": p,
                                 "silence_level": 3}, ig)
        for m in (0, 1, 3, n * (n - 1) // 2 - 1, n * (n - 1) // 2):
            model("ErdosRenyi", {"n_nodes": n, "n_links": m,
                                 "silence_level": 3}, ig)
    for (n, m) in ((3, 1), (4, 1), (5, 1), (4, 2), (5, 2), (6, 2), (4, 3),
                   (6, 3), (5, 4)):
        model("BarabasiAlbert", {"n_nodes": n, "n_links_each": m}, own)
    for (n, m) in ((4, 1), (5, 1), (5, 2), (6, 3)):
        model("BarabasiAlbert_igraph", {"n_nodes": n, "n_links_each": m}, ig)
    seqs = []
    for g in g5:
        d = ref.degrees(adj(5, False, g[1]))
        for q in (d, sorted(d), sorted(d, reverse=True)):
            if q not in seqs and sum(q) > 0:
                seqs.append(q)
    for q in seqs:
        model("Configuration", {"degree": q}, ig)
    for (n, k, p) in ((5, 1, 0.0), (5, 1, 0.5), (5, 1, 1.0), (6, 2, 0.5),
                      (6, 1, 0.25)):
        model("WattsStrogatz", {"N": n, "k": k, "p": p}, ig)
    ctx.explore("models", cases, chunk=2, desc="Network.Model: ErdosRenyi, "
                "BarabasiAlbert(_igraph), Configuration, WattsStrogatz")
    ctx.explore("scale", scale_cases(ctx.tier, seed), chunk=2,
                desc="larger structured inputs: BarabasiAlbert 30-100 nodes, "
                "set-cross-links for every existing count on groups with "
                "22/49/98/144 pairs, geomodels on 12-16 nodes with a tight "
                "tolerance, rewirings on 21-23 nodes, igraph models 30-40 "
                "nodes")
    ctx.rule = (
        "inputs: iso(5) (34 graphs) and %s connected graphs on 6 nodes with "
        "<= 8 links (one per isomorphism class; randomly_rewire also on the "
        "reversed labelling); rewirings x iterations {1,2,3}; "
        "geomodels I/II/III x point sets {line, 2x3 lattice, general "
        "position} x inaccuracy {0, 0.5, 100}; cross-link operations x every "
        "bipartition of the 5 nodes (0 in the first group%s) + 3 partial "
        "partitions; set-cross-links x {0,1,2,all pairs, density 0.5, keep} "
        "x {compiled, sparse}; distance kernel x 5 parameter pairs; model "
        "generators over the listed parameter grid.  Random answers: kernel "
        "edge/index draws -> every index; igraph getrandbits(32) -> 8 "
        "mid-bucket values, random() -> {0,1/4,1/2,3/4,0.999}; numpy matrix "
        "draws -> the same real menu per cell; option 0 = seeded default; "
        "all executions with <= b deviations, b raised from 1 towards bmax "
        "while the execution count of the next level fits the per-case "
        "budget.  A "
        "case is non-trivial when the answers changed the result; distinct "
        "= distinct sets of resulting adjacency matrices.  scale: the fixed "
        "list of larger inputs in scale_cases(), seeded default answers and "
        "(where stated there) every single deviation." % (
            "all 60" if thorough else "15 of the 60",
            "; both orders" if thorough else ""))
    ctx.notes.update({
        "bmax": {"own kernels": own["bmax"], "igraph": ig["bmax"],
                 "geomodel via method": api["bmax"],
                 "geomodel kernel direct": deep["bmax"]},
        "per_case_budget": {"5 nodes": own["budget"],
                            "6 nodes": own6["budget"], "igraph": ig["budget"],
                            "set cross links": xs["budget"],
                            "geomodel via method": api["budget"],
                            "geomodel kernel direct": deep["budget"]},
        "horizon": {"kernel draws": KERNEL_HORIZON,
                    "igraph draws": IGRAPH_HORIZON},
        "bound_per_case": "see stats.cases_at_bound_*",
        "scale_budget": "default execution always; single deviations when "
                        "their exact number fits %d executions" % (
                            6000 if thorough else 1500),
        "unmodelled_rng_functions": ref.unmodelled_names(ctx.stats) or
        "none (every draw of the operations went through a choice point)"})
    ctx.assumptions += [
        "igraph derives bounded integers from getrandbits(32) by "
        "multiply-shift, so 8 mid-bucket values reach every index of a range "
        "<= 8; igraph itself is trusted",
        "link-length drift after k swaps is judged against k*inaccuracy "
        "(each swap may move each length by less than the inaccuracy)",
        "distance matrices are passed as float32 (as the kernels store "
        "them); 1e-4 slack on length comparisons",
        "number of swaps of RandomlyRewireCrossLinks = int(swaps * number "
        "of cross links); swaps is chosen to make this 1, 2, 3"]
