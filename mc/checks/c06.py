"""C06  Queries are pure: no interference, inputs are never modified.

History exploration over query sequences on real objects (DESIGN 7/C06):

  after_q1   for every class driver and every query q1: fresh object, q1, then
             EVERY query q2 (q1 included: repeat determinism); each result is
             compared with q2 on its own pristine object; a difference is
             delta-debugged down to the minimal culprit pair; the caller's
             constructor arrays are snapshotted byte-wise before the
             constructor, after it and after the queries
  pairs      (thorough) every ordered pair (q1, q2) on its own fresh object
  shared     every ordered pair of climate-network classes derived from ONE
             shared ClimateData: the second network and the shared data's
             observable/anomaly/grid must be what they are without the first
"""
import itertools

import numpy as np

from ..core import V
from ..compare import same_outcome, brief, outcome
from .. import drivers as D

LEVEL = "model_checking"

_PRISTINE = {}

# documented in-place methods (their effect on inputs is not charged)
INPLACE_OK = {("Surrogates", "normalize_original_data")}


def _snap(arrs):
    out = {}
    for k, a in arrs.items():
        if isinstance(a, np.ndarray):
            out[k] = (a.shape, str(a.dtype), a.tobytes())
    return out


def _pristine(drv, mi, model):
    key = (drv.name, mi)
    if key not in _PRISTINE:
        res = {}
        for q in drv.queries(model):
            obj = drv.construct(model)
            res[D.qlabel(q)] = outcome(drv.call, obj, q)
        _PRISTINE[key] = res
    return _PRISTINE[key]


def _input_check(drv, snap0, viol, where):
    snap1 = _snap(drv.last_inputs)
    for k, v in snap0.items():
        if k in snap1 and snap1[k] != v:
            viol.append(V("%s.%s:mutates-input:%s" % (drv.name, where, k),
                          "caller-supplied array %r changed" % k,
                          np.frombuffer(snap1[k][2], dtype=snap1[k][1])[:12],
                          np.frombuffer(v[2], dtype=v[1])[:12]))


def fam_after_q1(case):
    dname, mi, qi = case
    drv = D.DRIVERS[dname]
    model = drv.models("thorough")[mi]
    qs = drv.queries(model)
    q1 = qs[qi]
    prist = _pristine(drv, mi, model)
    viol = []
    drv.last_inputs = {}
    obj = drv.construct(model)
    ref_inputs = _snap(drv.last_inputs)     # state after the constructor
    r1 = outcome(drv.call, obj, q1)
    _input_check(drv, ref_inputs, viol, D.qpattern(q1))
    ev = 1
    seq = [q1]
    for q2 in qs:
        got = outcome(drv.call, obj, q2)
        ev += 1
        exp = prist[D.qlabel(q2)]
        if not same_outcome(got, exp, **drv.tol):
            culprit = _blame(drv, model, seq, q2, exp)
            viol.append(V(
                "%s.%s:changed-by:%s" % (drv.name, D.qpattern(q2), culprit),
                "%s after [%s] differs from the same query on a pristine "
                "object" % (D.qlabel(q2), ", ".join(D.qlabel(x) for x in seq
                                                     [-6:])),
                brief(got), brief(exp)))
        seq.append(q2)
    _input_check(drv, ref_inputs, viol, "*queries*")
    return {"viol": viol, "evals": ev, "sig": (dname, mi, D.qlabel(q1)),
            "states": 1, "transitions": ev, "traces": 1,
            "stats": {"queries": len(qs)}}


def _blame(drv, model, seq, q2, exp):
    """Smallest culprit: a single earlier query c with (c; q2) != pristine."""
    for c in seq:
        obj = drv.construct(model)
        outcome(drv.call, obj, c)
        got = outcome(drv.call, obj, q2)
        if not same_outcome(got, exp, **drv.tol):
            return D.qpattern(c)
    return "sequence"


def fam_ctor(case):
    """Constructor purity: the arrays handed to the constructor are compared
    with deep copies taken before the call."""
    dname, mi = case
    drv = D.DRIVERS[dname]
    model = drv.models("thorough")[mi]
    viol = []
    recorded = {}
    orig_arr = drv.arr

    def arr(name, value, dtype=None):
        a = orig_arr(name, value, dtype)
        recorded[name] = (a, a.copy())
        return a
    drv.arr = arr
    # data OBJECTS handed to the constructor (grids, ClimateData): what they
    # report through their own public queries must not change either
    supplied = []

    def fingerprint(kind, o):
        d2 = D.DRIVERS.get(kind)
        if d2 is None:
            return []
        m2 = d2.models("thorough")[0]
        return [(D.qlabel(q), D.qpattern(q), outcome(d2.call, o, q))
                for q in d2.queries(m2)
                if q[0] not in ("set_window", "set_global_window")]

    def hook(kind, o):
        if type(o).__name__ != drv.name:      # not the object under test
            supplied.append((kind, o, fingerprint(kind, o)))
    D.OBJ_HOOK = hook

    def check_supplied(where):
        for kind, o, fp in supplied:
            d2 = D.DRIVERS[kind] if kind in D.DRIVERS else None
            if d2 is None:
                continue
            now = fingerprint(kind, o)
            for (lab, pat, g), (_, _, e) in zip(now, fp):
                if not same_outcome(g, e, **d2.tol):
                    k = "%s.%s:changes-supplied-object:%s.%s" % (
                        drv.name, where, kind, pat)
                    if not any(v["key"].endswith(":%s.%s" % (kind, pat))
                               for v in viol):
                        viol.append(V(k, "%s of the %s object handed to the "
                                      "constructor changed" % (lab, kind),
                                      brief(g), brief(e)))
    n = 0
    try:
        drv.last_inputs = {}
        obj = drv.construct(model)
        D.OBJ_HOOK = None
        check_supplied("__init__")
        for name, (a, c) in recorded.items():
            n += 1
            if a.shape != c.shape or a.tobytes() != c.tobytes():
                viol.append(V("%s.__init__:mutates-input:%s" % (drv.name,
                                                                name),
                              "the constructor changed the caller's array",
                              a.ravel()[:12], c.ravel()[:12]))
        # every query; arrays created for query arguments are recorded too
        for q in drv.queries(model):
            before = set(recorded)
            outcome(drv.call, obj, q)
            for name, (a, c) in recorded.items():
                if a.shape != c.shape or a.tobytes() != c.tobytes():
                    n += 1
                    where = D.qpattern(q)
                    k = "%s.%s:mutates-input:%s" % (drv.name, where, name)
                    if not any(v["key"].endswith(":" + name) for v in viol):
                        viol.append(V(k, "the query changed an array "
                                      "supplied by the caller",
                                      a.ravel()[:12], c.ravel()[:12]))
        check_supplied("queries")
        n += sum(len(fp) for _, _, fp in supplied)
    finally:
        D.OBJ_HOOK = None
        del drv.arr
    return {"viol": viol, "evals": max(n, 1), "sig": (dname, mi, "ctor"),
            "states": 1, "transitions": 1, "traces": 1}


def fam_pairs(case):
    dname, mi, qi = case
    drv = D.DRIVERS[dname]
    model = drv.models("thorough")[mi]
    qs = drv.queries(model)
    q1 = qs[qi]
    prist = _pristine(drv, mi, model)
    viol = []
    for q2 in qs:
        obj = drv.construct(model)
        outcome(drv.call, obj, q1)
        got = outcome(drv.call, obj, q2)
        exp = prist[D.qlabel(q2)]
        if not same_outcome(got, exp, **drv.tol):
            viol.append(V(
                "%s.%s:changed-by:%s" % (drv.name, D.qpattern(q2),
                                         D.qpattern(q1)),
                "%s after %s differs from the same query on a pristine "
                "object" % (D.qlabel(q2), D.qlabel(q1)),
                brief(got), brief(exp)))
    return {"viol": viol, "evals": len(qs), "sig": (dname, mi, D.qlabel(q1),
                                                    "pairs"),
            "states": len(qs), "transitions": 2 * len(qs), "traces": len(qs)}


# ---------------------------------------------------------------------------
# derived objects over one shared ClimateData


def _shared_classes():
    import pyunicorn.climate as C
    kw = dict(silence_level=3)
    return {
        "Tsonis": lambda d: C.TsonisClimateNetwork(
            d, threshold=0.5, winter_only=False, **kw),
        "Spearman": lambda d: C.SpearmanClimateNetwork(
            d, threshold=0.5, winter_only=False, **kw),
        "Partial": lambda d: C.PartialCorrelationClimateNetwork(
            d, threshold=0.3, winter_only=False, **kw),
        "MutualInfo": lambda d: C.MutualInfoClimateNetwork(
            d, threshold=0.3, winter_only=False, **kw),
        "Havlin": lambda d: C.HavlinClimateNetwork(
            d, max_delay=3, threshold=0.5, **kw),
        "Hilbert": lambda d: C.HilbertClimateNetwork(
            d, threshold=0.5, **kw),
        "Rainfall": lambda d: C.RainfallClimateNetwork(
            d, threshold=0.3, **kw),
        "EventSeries": lambda d: C.EventSeriesClimateNetwork(
            d, method="ES", taumax=2, threshold_method="quantile",
            threshold_values=0.7, threshold_types="above", threshold=0.2,
            **kw),
    }


def _data_state(d):
    return {"observable": np.array(d.observable(), copy=True),
            "anomaly": np.array(d.anomaly(), copy=True),
            "lat": np.array(d.grid.lat_sequence(), copy=True),
            "lon": np.array(d.grid.lon_sequence(), copy=True),
            "phase_mean": np.array(d.phase_mean(), copy=True)}


def _net_state(net):
    return {"similarity": np.array(net.similarity_measure(), copy=True),
            "adjacency": np.array(net.adjacency, copy=True),
            "n_links": net.n_links}


def fam_shared(case):
    a, b = case
    mk = _shared_classes()
    viol, excl = [], {}
    data = D.climate_data(T=24, time_cycle=12)
    s0 = _data_state(data)
    # pristine b
    try:
        pb = _net_state(mk[b](D.climate_data(T=24, time_cycle=12)))
    except Exception as ex:   # noqa
        return {"excluded": {"%s not constructible on the fixture: %s" % (
            b, type(ex).__name__): 1}, "trivial": True}
    try:
        na = mk[a](data)
        na.similarity_measure()
    except Exception as ex:   # noqa
        return {"excluded": {"%s not constructible on the fixture: %s" % (
            a, type(ex).__name__): 1}, "trivial": True}
    s1 = _data_state(data)
    for k in s0:
        if s0[k].shape != s1[k].shape or not np.array_equal(
                s0[k], s1[k], equal_nan=True):
            viol.append(V("%sClimateNetwork.__init__:mutates-shared-data:%s"
                          % (a, k), "shared ClimateData.%s() changed by "
                          "constructing a %s network" % (k, a),
                          s1[k].ravel()[:8], s0[k].ravel()[:8]))
    if viol:
        # one root cause, one key: the second network necessarily differs
        return {"viol": viol, "evals": 2, "sig": (a, b), "states": 2,
                "transitions": 2, "traces": 1}
    nb = mk[b](data)
    sb = _net_state(nb)
    for k in pb:
        same = (np.shape(pb[k]) == np.shape(sb[k]) and
                np.allclose(pb[k], sb[k], rtol=1e-6, atol=1e-8,
                            equal_nan=True))
        if not same:
            viol.append(V("%sClimateNetwork.%s:changed-by:%sClimateNetwork"
                          % (b, k, a), "a %s network built from a "
                          "ClimateData that a %s network was built from "
                          "before differs from one built from pristine data"
                          % (b, a), np.ravel(sb[k])[:8], np.ravel(pb[k])[:8]))
    return {"viol": viol, "evals": 2 + len(pb), "sig": (a, b),
            "states": 2, "transitions": 2, "traces": 1, "excluded": excl}


def fam_two_objects(case):
    """State shared between OBJECTS (class-level memo, module-level scratch):
    using object B between two uses of object A must not change what A
    reports: A.q*, B.q*, A.q*  and, for every mutator m,
    A.m, B.m, A.m, A.q*.  Reference: the same operations on A alone."""
    dname, mi, tier = case
    drv = D.DRIVERS[dname]
    modelA = drv.models(tier)[mi]
    modelB = drv.other_model(modelA, tier)
    viol, ev, tr = [], 0, 0

    def all_q(obj, model):
        return [(D.qlabel(q), D.qpattern(q), outcome(drv.call, obj, q))
                for q in drv.queries(model)]

    steps = [None] + [spec for _, spec in drv.mutators(modelA)]
    for spec in steps:
        # reference: A alone
        a = drv.construct(modelA)
        drv.clear_caches(a)
        ma = modelA
        try:
            all_q(a, ma)
            if spec is not None:
                ma = drv.apply(a, ma, spec)
                if ma is None:
                    continue
                all_q(a, ma)
                ma2 = drv.apply(a, ma, spec)
                if ma2 is None:
                    continue
                ma = ma2
            ref = all_q(a, ma)
        except Exception:   # noqa
            continue
        # test: the same with B used in between
        drv.clear_caches(a)
        a = drv.construct(modelA)
        b = drv.construct(modelB)
        ma, mb = modelA, modelB
        all_q(a, ma)
        all_q(b, mb)
        if spec is not None:
            ma = drv.apply(a, ma, spec)
            try:
                mb2 = drv.apply(b, mb, spec)
                if mb2 is not None:
                    mb = mb2
                    all_q(b, mb)
            except Exception:   # noqa
                pass
            all_q(a, ma)
            ma = drv.apply(a, ma, spec)
        else:
            all_q(b, mb)
        got = all_q(a, ma)
        tr += 3
        for (lab, pat, g), (_, _, e) in zip(got, ref):
            ev += 1
            if not same_outcome(g, e, **drv.tol):
                viol.append(V(
                    "%s.%s:changed-by-other-object:%s" % (
                        drv.name, pat, spec[0] if spec else "queries"),
                    "%s on object A differs when another object of the "
                    "same class was used in between" % lab,
                    brief(g), brief(e)))
    return {"viol": viol, "evals": ev, "sig": (dname, mi, "two"),
            "states": len(steps), "transitions": tr, "traces": len(steps)}




# ---------------------------------------------------------------------------
# weighted distances that equal N exactly (C06-Q: an in-place sentinel N that
# is "restored" by value destroys a genuine distance N in the cached matrix)

_WQ = [("path_lengths", {"link_attribute": "w"}),
       ("closeness", {"link_attribute": "w"}),
       ("average_path_length", {"link_attribute": "w"}),
       ("global_efficiency", {"link_attribute": "w"}),
       ("diameter", {}),
       ("path_lengths", {}),
       ("closeness", {})]


def _wn_net(n, directed, gap):
    """path 0-1-..-(n-1) whose weights sum to exactly n; with gap an extra
    isolated node (so inf entries coexist with the distance n)"""
    from pyunicorn.core import Network
    N = n + (1 if gap else 0)
    A = np.zeros((N, N), dtype=int)
    W = np.zeros((N, N))
    w = [1.0] * (n - 1)
    w[-1] = float(N - (n - 2))
    for i in range(n - 1):
        A[i, i + 1] = 1
        W[i, i + 1] = w[i]
        if not directed:
            A[i + 1, i] = 1
            W[i + 1, i] = w[i]
    net = Network(adjacency=A, directed=directed, silence_level=3)
    net.set_link_attribute("w", W)
    return net


def fam_weighted_n(case):
    n, directed, gap, qi = case
    viol = []
    prist = {}
    for j, (m, kw) in enumerate(_WQ):
        prist[j] = outcome(lambda o, q: getattr(o, q[0])(**q[1]),
                           _wn_net(n, directed, gap), (m, kw))
    obj = _wn_net(n, directed, gap)
    q1 = _WQ[qi]
    call = lambda o, q: getattr(o, q[0])(**q[1])
    outcome(call, obj, q1)
    ev = 1
    for j, q2 in enumerate(_WQ):
        got = outcome(call, obj, q2)
        ev += 1
        if not same_outcome(got, prist[j]):
            viol.append(V(
                "Network.%s[%s]:changed-by:%s[%s]:distance-equals-N" % (
                    q2[0], ",".join(q2[1]), q1[0], ",".join(q1[1])),
                "n=%d directed=%s isolated=%s: %s after %s differs from a "
                "pristine object" % (n, directed, gap, q2, q1),
                brief(got), brief(prist[j])))
    return {"viol": viol, "evals": ev, "sig": (n, directed, gap, qi),
            "states": 1, "transitions": ev, "traces": 1}


FAMILIES = {"after_q1": fam_after_q1, "pairs": fam_pairs,
            "shared": fam_shared, "ctor": fam_ctor,
            "two_objects": fam_two_objects,
            "weighted_n": fam_weighted_n}


def run(ctx):
    import os
    thorough = ctx.tier == "thorough"
    only = [x for x in (os.environ.get("VERIF_C06_CLASSES") or "").split(",")
            if x]
    ctx.rule = (
        "after_q1: for every class driver, model and query q1: q1 then every "
        "query (incl. q1 again) on one object, each compared with the query "
        "on its own pristine object, with byte-wise snapshots of caller "
        "arrays; pairs (thorough): every ordered pair on a fresh object; "
        "shared: every ordered pair of climate-network classes over one "
        "shared ClimateData; ctor: constructor + all queries against deep "
        "copies of the caller's arrays.  distinct = distinct (class, q1).")
    nq = {}
    ctor_cases, aq, pairs = [], [], []
    for dname, drv in D.DRIVERS.items():
        if only and dname not in only:
            continue
        for mi, model in enumerate(drv.models(ctx.tier)):
            n = len(drv.queries(model))
            nq[dname] = n
            ctor_cases.append([dname, mi])
            aq += [[dname, mi, i] for i in range(n)]
            if thorough:
                pairs += [[dname, mi, i] for i in range(n)]
    ctx.explore("ctor", ctor_cases, chunk=1, desc="constructor/query input "
                "snapshots")
    ctx.explore("two_objects", [c + [ctx.tier] for c in ctor_cases], chunk=1,
                desc="A, another object B of the same class, A again "
                "(queries and each mutator) vs A alone")
    ctx.explore("after_q1", aq, chunk=4, desc="q1 then all queries")
    if not only:
        ctx.explore("weighted_n",
                    [[n, d, g, qi] for n in (3, 4, 5) for d in (False, True)
                     for g in (False, True) for qi in range(len(_WQ))],
                    chunk=6, desc="weighted shortest paths of length exactly "
                    "N: q1 then every weighted/unweighted path query vs "
                    "pristine objects")
    if thorough:
        ctx.explore("pairs", pairs, chunk=2, desc="all ordered pairs, each "
                    "on a fresh object")
    if not only:
        names = sorted(_shared_classes())
        ctx.explore("shared", [[a, b] for a in names for b in names],
                    chunk=1, desc="ordered pairs of climate classes over one "
                    "shared ClimateData")
    ctx.notes["queries_per_class"] = nq
    ctx.assumptions += [
        "random queries are evaluated under identically reseeded generators",
        "in-place methods documented as such are not charged",
        "the check never writes into an array returned by the library"]
