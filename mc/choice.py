"""Choice-sequence exploration with deviation bounding (DESIGN.md section 2,
shape 3): the CHESS / `explore(prefix)` scheme for environment answers.

Every intercepted environment answer (an RNG draw, a scheduling decision) is a
*choice point* with a finite menu whose option 0 is the default answer (e.g.
the value the seeded PRNG itself would give, or "keep running the current
thread").  `explore()` runs the system once per choice sequence and enumerates
ALL sequences with at most `bound` non-default choices; each execution runs to
completion or to the explicit `horizon` (number of choice points), in which
case it is reported as *cut*, never as covered.
"""


class Horizon(Exception):
    """Raised from a choice point when the execution exceeds its horizon."""


class ReplayDivergence(Exception):
    """The system offered a different menu while a recorded prefix was being
    replayed: nondeterminism that the harness does not own (hard error)."""


class ChoiceRun:
    def __init__(self, prefix=(), horizon=1000):
        self.prefix = list(prefix)
        self.horizon = horizon
        self.taken = []
        self.menus = []
        self.labels = []

    def choose(self, n_options, label=""):
        """Return the index of the option to take at this choice point."""
        i = len(self.taken)
        if i >= self.horizon:
            raise Horizon()
        if n_options < 1:
            raise ValueError("empty menu")
        c = self.prefix[i] if i < len(self.prefix) else 0
        if c >= n_options:
            raise ReplayDivergence("choice %d: recorded option %d, menu %d"
                                   % (i, c, n_options))
        self.taken.append(c)
        self.menus.append(n_options)
        self.labels.append(label)
        return c

    def deviations(self):
        return sum(1 for c in self.taken if c)


def explore(run_fn, bound, horizon=1000, max_runs=None):
    """Enumerate all executions of `run_fn(cr)` with <= bound deviations.

    run_fn(cr) must drive the system, calling cr.choose() at every choice
    point, and return an outcome (any value).  A Horizon exception may
    propagate out of run_fn; it is recorded as outcome ('cut',).
    Yields (choices, outcome, cut) per execution.  Returns when the space is
    exhausted, or after max_runs executions (then `explore.capped` is True).
    """
    stack = [[]]
    runs = 0
    explore.capped = False
    while stack:
        prefix = stack.pop()
        cr = ChoiceRun(prefix, horizon)
        cut = False
        try:
            out = run_fn(cr)
        except Horizon:
            out, cut = ("cut",), True
        runs += 1
        yield list(cr.taken), out, cut
        if max_runs is not None and runs >= max_runs:
            explore.capped = bool(stack)
            if stack:
                return
        base = sum(1 for c in prefix if c)
        if base + 1 > bound:
            continue
        # alternatives at every choice point after the replayed prefix;
        # pushed in reverse so that the DFS visits earliest points first
        for i in range(len(cr.taken) - 1, len(prefix) - 1, -1):
            for alt in range(cr.menus[i] - 1, 0, -1):
                stack.append(cr.taken[:i] + [alt])


def replay(run_fn, choices, horizon=1000):
    """Run exactly one recorded choice sequence; returns (outcome, cut)."""
    cr = ChoiceRun(choices, horizon)
    try:
        return run_fn(cr), False
    except Horizon:
        return ("cut",), True


class IgraphRNG:
    """Stand-in for igraph's random number generator
    (`igraph.set_random_number_generator(obj)`): igraph 1.0 calls
    `getrandbits(32)` for integers and `random()` for reals.  Option 0 is the
    seeded default generator's own answer; the others come from the menus."""

    def __init__(self, cr, seed, bits_menu, real_menu):
        import random as _r
        self._d = _r.Random(seed)
        self.cr = cr
        self.bits_menu = list(bits_menu)
        self.real_menu = list(real_menu)

    def getrandbits(self, k):
        d = self._d.getrandbits(k)
        c = self.cr.choose(1 + len(self.bits_menu), "bits")
        if c == 0:
            return d
        return self.bits_menu[c - 1] & ((1 << k) - 1)

    def random(self):
        d = self._d.random()
        c = self.cr.choose(1 + len(self.real_menu), "real")
        return d if c == 0 else self.real_menu[c - 1]

    def randint(self, a, b):
        d = self._d.randint(a, b)
        c = self.cr.choose(1 + (b - a + 1), "int")
        return d if c == 0 else a + c - 1

    def gauss(self, mu, sigma):
        return self._d.gauss(mu, sigma)


class IndexSource:
    """Answers `floor(u*E)`-style and `randint(k)` draws: option 0 = seeded
    default, options 1..k = every index."""

    def __init__(self, cr, seed):
        import random as _r
        self._d = _r.Random(seed)
        self.cr = cr

    def index(self, k, label="idx"):
        """An integer in [0, k)."""
        if k <= 0:
            return 0
        d = self._d.randrange(k)
        c = self.cr.choose(1 + k, label)
        return d if c == 0 else c - 1

    def unit(self, menu, label="unit"):
        """A real in [0,1): option 0 = seeded default, others from `menu`."""
        d = self._d.random()
        c = self.cr.choose(1 + len(menu), label)
        return d if c == 0 else menu[c - 1]
