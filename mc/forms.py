"""Input-form family shared by several checks: an object built from an
EQUAL-VALUED input in another legal form (nested list, Fortran order, strided
view, other integer / float width where every value is exactly representable,
boolean, masked array without mask) must report what the object built from the
canonical C-ordered array reports - for every introspected query.

case = [driver name, model index, tier, input name, form]
A constructor that rejects the form with an exception is counted, not charged
(the documentation promises arrays); a silently different value is charged to
the property that owns the class (the calling check decides which drivers it
explores).
"""
import os

import numpy as np

from . import drivers as D
from .core import V
from .compare import same_outcome, brief, outcome

#  (masked arrays are not a documented input and take other code paths inside
#  numpy itself - e.g. float64 instead of float32 trigonometry - so they are
#  not part of the family)
FORMS = ("list", "fortran", "view", "negview", "f32", "f64", "bool", "int8",
         "int64", "readonly")

#  which check explores which class drivers (the property that owns the class)
BY_PROP = {
    "C05": ["Network", "InteractingNetworks", "SpatialNetwork", "GeoNetwork"],
    "C09": ["ClimateNetwork"],
    "C07": ["RecurrencePlot", "RecurrenceNetwork", "CrossRecurrencePlot",
            "JointRecurrencePlot", "JointRecurrenceNetwork",
            "InterSystemRecurrenceNetwork"],
    "C10": ["CouplingAnalysis"],
    "C12": ["GeoGrid", "Grid"],
    "C13": ["ClimateData"],
    "C14": ["VisibilityGraph"],
    "C15": ["Surrogates"],
    "C16": ["EventSeries"],
    "C18": ["ResNetwork"],
}


def install(mod):
    fams = getattr(mod, "FAMILIES", None)
    if isinstance(fams, dict):
        fams.setdefault("forms", fam_forms)


def attach(ctx):
    names = BY_PROP.get(ctx.prop)
    if not names:
        return
    ctx.explore("forms", cases(names, ctx.tier), chunk=2,
                desc="equal-valued constructor input in another legal form "
                "(list, Fortran order, strided views, other widths, bool, "
                "read-only) vs the C-ordered array, every introspected query")
    ctx.rule += ("  forms: per class driver, constructor input and form in "
                 "%s: all queries equal those of the canonical object." %
                 (FORMS,))


def convert(a, form):
    """-> converted input or None when the form does not apply / would change
    a value."""
    a = np.asarray(a)
    if form == "list":
        return a.tolist()
    if form == "fortran":
        if a.ndim < 2 or min(a.shape) < 2:
            return None
        return np.asfortranarray(a)
    if form == "view":
        big = np.empty(tuple(2 * s for s in a.shape), dtype=a.dtype)
        big[...] = 1 if a.dtype.kind in "biu" else 977.0
        sl = tuple(slice(None, None, 2) for _ in a.shape)
        big[sl] = a
        return big[sl]
    if form == "negview":
        if a.ndim < 1 or a.shape[0] < 2:
            return None
        return np.ascontiguousarray(a[::-1])[::-1]
    if form == "f32":
        if a.dtype != np.float64 or \
                not np.array_equal(a.astype(np.float32).astype(float), a,
                                   equal_nan=True):
            return None
        return a.astype(np.float32)
    if form == "f64":
        if a.dtype == np.float64 or a.dtype.kind not in "iuf":
            return None
        return a.astype(np.float64)
    if form == "bool":
        if a.dtype.kind not in "iu" or not np.isin(a, (0, 1)).all():
            return None
        return a.astype(bool)
    if form in ("int8", "int64"):
        t = np.dtype(form)
        if a.dtype.kind not in "iu" or a.dtype == t or \
                (a.size and (a.max() > 100 or a.min() < -100)):
            return None
        return a.astype(t)
    if form == "masked":
        return np.ma.array(a)
    if form == "readonly":
        b = a.copy()
        b.setflags(write=False)
        return b
    raise ValueError(form)


def input_names(drv, model):
    drv.last_inputs = {}
    D.FORM = None
    try:
        drv.construct(model)
    except Exception:   # noqa
        return []
    return sorted(drv.last_inputs)


def cases(names, tier):
    out = []
    for dname in names:
        drv = D.DRIVERS[dname]
        for mi, model in enumerate(drv.models(tier)):
            for nm in input_names(drv, model):
                for f in FORMS:
                    out.append([dname, mi, tier, nm, f])
            # not an input form but an option every constructor takes: full
            # verbosity (silence_level=0) must not change any result
            out.append([dname, mi, tier, "*", "silence0"])
    return out


def fam_forms(case):
    dname, mi, tier, nm, form = case
    drv = D.DRIVERS[dname]
    model = drv.models(tier)[mi]
    qs = drv.queries(model)
    res = {"viol": [], "evals": 0, "sig": (dname, mi, nm, form)}
    D.FORM = None
    ref_obj = drv.construct(model)
    a = drv.last_inputs.get(nm)
    if form != "silence0" and (a is None or convert(a, form) is None):
        res.update(trivial=True, excluded={"form not applicable: " + form: 1})
        return res
    ref = [outcome(drv.call, ref_obj, q) for q in qs]
    drv.clear_caches(ref_obj)
    if form == "silence0":
        D.SILENCE = 0
        err = os.dup(2)
        null = os.open(os.devnull, os.O_WRONLY)
        os.dup2(null, 2)          # progress bars go to stderr
    else:
        D.FORM = (nm, form)
    try:
        try:
            obj = drv.construct(model)
        except Exception as ex:   # noqa
            res.update(trivial=True, excluded={
                "constructor rejects %s=%s: %s" % (nm, form,
                                                   type(ex).__name__): 1})
            return res
        got = [outcome(drv.call, obj, q) for q in qs]
    finally:
        D.FORM = None
        if form == "silence0":
            D.SILENCE = 3
            os.dup2(err, 2)
            os.close(err)
            os.close(null)
    viol = res["viol"]
    tol = drv.tol
    if form == "f32":
        # the library computes in the precision it is given: values may
        # differ within single precision, and printed summaries with them
        tol = dict(rtol=2e-4, atol=2e-5)
    for q, g, e in zip(qs, got, ref):
        res["evals"] += 1
        if same_outcome(g, e, **tol):
            continue
        if form == "f32" and g[0] == e[0] == "ok" and \
                isinstance(g[1], str) and isinstance(e[1], str):
            continue
        kind = "raises" if (g[0] == "exc" and e[0] != "exc") else "value"
        viol.append(V(
            "%s.%s:input-form:%s:%s=%s" % (drv.name, D.qpattern(q), kind, nm,
                                           form),
            "%s on an object built from %s given as %s differs from the "
            "object built from the equal-valued C-ordered array" % (
                D.qlabel(q), nm, form), brief(g), brief(e)))
    res["sig"] = (dname, mi, nm, form, len(viol))
    return res
