#!/usr/bin/env python3
"""Print the markdown table of DESIGN.md section 13 from /verif/seeded/*/meta.json"""
import glob
import json
import os
import re

HERE = os.path.dirname(os.path.dirname(os.path.abspath(__file__)))
rows = []
for d in sorted(glob.glob(os.path.join(HERE, "seeded", "*"))):
    mp = os.path.join(d, "meta.json")
    if not os.path.exists(mp):
        continue
    m = json.load(open(mp))
    note = ""
    np_ = os.path.join(d, "note.md")
    if os.path.exists(np_):
        txt = open(np_).read()
        note = m.get("summary") or ""
    caught = []
    for k, v in (m.get("checks") or {}).items():
        if v.get("exit") == 1:
            keys = ", ".join("`%s`" % x for x in v.get("keys", [])[:2])
            caught.append("%s: %s" % (k, keys))
    files = ", ".join(os.path.basename(f) for f in m.get("files", []))
    rows.append("| %s | %s | %s | %s | %s |" % (
        os.path.basename(d), files,
        "yes" if m.get("valid_seed") else "NO",
        "; ".join(caught) if caught else ("**missed** " + m.get("miss_reason", "")),
        m.get("needs", "")))
print("| seed | files changed | valid (suite green, demo flips) | caught by (tier: first keys) | needs to manifest |")
print("|------|---------------|----------------------------------|------------------------------|-------------------|")
print("\n".join(rows))
