#!/usr/bin/env python3
"""Evaluate a seeded defect delivered by an independent sub-agent.

  tools/eval_seed.py <PID> <A|B> [--src /tmp/seed/<PID>/out/<A|B>] [--checks C01,C06] [--thorough]

Steps (all in a scratch worktree outside /repo and /verif, removed afterwards):
  1. demo.py on the clean tree           -> must exit 0
  2. apply patch.diff (rebuild extensions if a .pyx/.c/.pxd file changed)
  3. the repository's own test-suite     -> must stay green
  4. demo.py on the patched tree         -> must exit 1
  5. ./check <PID> (and any --checks) with VERIF_REPO=<worktree> -> VIOLATION expected
The artefacts and the outcome are stored in /verif/seeded/<PID>-<A|B>/.
"""
import argparse
import json
import os
import shutil
import subprocess
import sys
import time

VERIF = os.path.dirname(os.path.dirname(os.path.abspath(__file__)))
PY = "/venv/bin/python"


def sh(cmd, cwd=None, env=None, timeout=3600):
    r = subprocess.run(cmd, shell=True, cwd=cwd, env=env, text=True,
                       stdout=subprocess.PIPE, stderr=subprocess.STDOUT,
                       timeout=timeout)
    return r.returncode, r.stdout


def main():
    ap = argparse.ArgumentParser()
    ap.add_argument("pid")
    ap.add_argument("which")
    ap.add_argument("--src")
    ap.add_argument("--checks", default="")
    ap.add_argument("--thorough", action="store_true")
    ap.add_argument("--keep", action="store_true")
    a = ap.parse_args()
    pid, which = a.pid.upper(), a.which
    src = a.src or "/tmp/seed/%s/out/%s" % (pid, which)
    wt = "/tmp/evalwt-%s-%s" % (pid, which)
    out = os.path.join(VERIF, "seeded", "%s-%s" % (pid, which))
    meta = {"property": pid, "variant": which, "source": "independent "
            "sub-agent given only the property text", "steps": {}}
    sh("git -C /repo worktree remove --force %s" % wt)
    shutil.rmtree(wt, ignore_errors=True)
    rc, o = sh("git -C /repo worktree add --detach %s HEAD" % wt)
    assert rc == 0, o
    try:
        for p in ("climate", "core", "funcnet", "timeseries"):
            sh("cp /repo/src/pyunicorn/%s/_ext/*.so %s/src/pyunicorn/%s/_ext/"
               % (p, wt, p))
        env = dict(os.environ, PYTHONPATH=wt + "/src", OMP_NUM_THREADS="1",
                   OPENBLAS_NUM_THREADS="1")
        rc, o = sh("%s %s/demo.py" % (PY, src), cwd="/tmp", env=env,
                   timeout=900)
        meta["steps"]["demo_clean_exit"] = rc
        rc, o = sh("git -C %s apply %s/patch.diff" % (wt, src))
        meta["steps"]["patch_applies"] = (rc == 0)
        if rc != 0:
            meta["steps"]["apply_output"] = o[-800:]
            raise SystemExit(finish(meta, out, src, "patch does not apply"))
        rc, changed = sh("git -C %s diff --name-only" % wt)
        meta["files"] = changed.split()
        if any(f.endswith((".pyx", ".c", ".pxd")) for f in meta["files"]):
            rc, o = sh("%s setup.py build_ext --inplace -j4" % PY, cwd=wt)
            shutil.rmtree(wt + "/build", ignore_errors=True)
            meta["steps"]["rebuild_ok"] = (rc == 0)
        t0 = time.time()
        rc, o = sh("%s -m pytest -q -p no:cacheprovider -n 8 --deselect "
                   "tests/test_climate/test_map_plot.py tests" % PY, cwd=wt,
                   env=env)
        tail = [l for l in o.strip().splitlines() if l.strip()][-1:]
        meta["steps"]["suite"] = {"exit": rc, "summary": tail,
                                  "wall_s": round(time.time() - t0)}
        rc, o = sh("%s %s/demo.py" % (PY, src), cwd="/tmp", env=env,
                   timeout=900)
        meta["steps"]["demo_patched_exit"] = rc
        meta["steps"]["demo_patched_output"] = o[-600:]
        checks = [pid] + [c for c in a.checks.split(",") if c and c != pid]
        meta["checks"] = {}
        env2 = dict(os.environ, VERIF_REPO=wt)
        for c in checks:
            for tier in (["quick", "thorough"] if a.thorough else ["quick"]):
                t0 = time.time()
                rc, o = sh("%s/check %s --tier %s" % (VERIF, c, tier),
                           cwd=VERIF, env=env2, timeout=7200)
                viol = [l for l in o.splitlines()
                        if l.startswith("VIOLATION")]
                meta["checks"]["%s/%s" % (c, tier)] = {
                    "exit": rc, "violations": len(viol),
                    "keys": [l.split("key=")[1].split(" ")[0]
                             for l in viol if "key=" in l][:12],
                    "wall_s": round(time.time() - t0)}
                if rc == 1:
                    break
        # the evidence files were rewritten by runs against the mutant:
        # restore the committed ones
        sh("git -C %s checkout -- evidence" % VERIF)
        verdict = "ok"
    finally:
        if not a.keep:
            sh("git -C /repo worktree remove --force %s" % wt)
            shutil.rmtree(wt, ignore_errors=True)
    print(finish(meta, out, src, verdict))


def finish(meta, out, src, verdict):
    s = meta["steps"]
    valid = (s.get("demo_clean_exit") == 0 and s.get("patch_applies")
             and s.get("suite", {}).get("exit") == 0
             and s.get("demo_patched_exit") not in (0, None))
    caught = any(v["exit"] == 1 for v in meta.get("checks", {}).values())
    meta["valid_seed"] = bool(valid)
    meta["caught"] = bool(caught)
    meta["verdict"] = verdict
    os.makedirs(out, exist_ok=True)
    try:    # keep hand-written annotations of an earlier evaluation
        prev = json.load(open(os.path.join(out, "meta.json")))
        for k in ("needs", "miss_reason", "summary"):
            if k in prev and k not in meta:
                meta[k] = prev[k]
    except Exception:   # noqa
        pass
    for f in ("patch.diff", "demo.py", "note.md"):
        if os.path.exists(os.path.join(src, f)):
            shutil.copy(os.path.join(src, f), os.path.join(out, f))
    with open(os.path.join(out, "meta.json"), "w") as fh:
        json.dump(meta, fh, indent=1)
    return json.dumps({"seed": "%s-%s" % (meta["property"], meta["variant"]),
                       "valid": valid, "caught": caught,
                       "suite": s.get("suite", {}).get("summary"),
                       "checks": meta.get("checks")}, indent=1)


if __name__ == "__main__":
    main()
