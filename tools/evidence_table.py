#!/usr/bin/env python3
"""Print the table of DESIGN.md section 11 from /verif/evidence/*.json"""
import glob
import json
import os

HERE = os.path.dirname(os.path.dirname(os.path.abspath(__file__)))


def h(n):
    n = int(n)
    if n >= 10**6:
        return "%.1f M" % (n / 1e6)
    if n >= 10**4:
        return "%d k" % round(n / 1e3)
    return str(n)


print("| prop | level | families | quick: evaluations / distinct outcomes "
      "/ wall | states, transitions |")
print("|------|-------|----------|-----------------------------------------"
      "------|---------------------|")
for f in sorted(glob.glob(os.path.join(HERE, "evidence", "C*.json"))):
    e = json.load(open(f))
    c = e["coverage"]
    fams = c.get("families", {})
    wall = sum(v.get("wall_s", 0) for v in fams.values())
    st = ""
    if e["level"] == "model_checking":
        s, t = c.get("states"), c.get("transitions")
        if s is None:
            b = e.get("bounds") or c.get("bounds") or {}
            s, t = b.get("states"), b.get("transitions")
        if s is not None:
            st = "%s states, %s transitions" % (h(s), h(t or 0))
    print("| %s | %s | %s | %s / %s / %d s | %s |" % (
        e["property_id"], e["level"], ", ".join(fams),
        h(c["evaluations"]), h(c["distinct_nontrivial"]), round(wall), st))
