#!/bin/bash
# Analysis aid (not a registered check): which lines of src/pyunicorn do the
# checks reach?  Usage: tools/coverage_map.sh [tier] [IDs...]
# Writes /var/tmp/pyunicorn-verif/cov/report.txt; evidence files are restored.
here="$(cd "$(dirname "$0")/.." && pwd)"
tier=${1:-quick}; shift
ids=${@:-C01 C02 C03 C04 C05 C06 C07 C08 C09 C10 C11 C12 C13 C14 C15 C16 C17 C18 C19}
cov=/var/tmp/pyunicorn-verif/cov
rm -rf $cov; mkdir -p $cov
export OMP_NUM_THREADS=1 OPENBLAS_NUM_THREADS=1 MKL_NUM_THREADS=1 NUMEXPR_NUM_THREADS=1
export PYTHONHASHSEED=0 PYTHONDONTWRITEBYTECODE=1 MPLBACKEND=Agg PYTHONPATH="$here"
cd "$here"
tree=$(/venv/bin/python -c "from mc import build; print(build.ensure())")
cat > $cov/rc <<EOT
[run]
parallel = True
concurrency = multiprocessing,thread
data_file = $cov/data
source = $tree
[report]
include = */pyunicorn/*
EOT
for id in $ids; do
  VERIF_NO_CONFIRM=1 /venv/bin/python -W ignore -m coverage run --rcfile=$cov/rc -m mc.cli $id --tier $tier --quiet > $cov/$id.log 2>&1
  echo "$id rc=$?"
done
cd $cov && /venv/bin/python -m coverage combine --rcfile=$cov/rc >/dev/null 2>&1
/venv/bin/python -m coverage report --rcfile=$cov/rc -m > $cov/report.txt 2>&1
git -C "$here" checkout -- evidence
tail -n 3 $cov/report.txt
