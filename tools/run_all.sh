#!/bin/bash
# tools/run_all.sh [quick|thorough] [ids...]  - run checks sequentially, print one summary line each
tier=${1:-quick}; shift
cd "$(dirname "$0")/.."
ids="$@"
if [ -z "$ids" ]; then ids=$(python3 -c "import json;print(' '.join(c['property_id'] for c in json.load(open('MANIFEST.json'))['checks']))"); fi
for c in $ids; do
  s=$(date +%s)
  ./check $c --tier $tier > /tmp/run_all.$c.log 2>&1; rc=$?
  e=$(date +%s)
  echo "$c rc=$rc $((e-s))s $(grep -c '^KNOWN-FINDING' /tmp/run_all.$c.log) known; $(grep -E '^VIOLATION|HARNESS' /tmp/run_all.$c.log | head -3 | cut -c1-160)"
done
