#!/usr/bin/env python3
"""Generate /verif/MANIFEST.json from the table below (keeps it valid)."""
import json
import os

HERE = os.path.dirname(os.path.dirname(os.path.abspath(__file__)))
BASE = ("cd /repo && /venv/bin/python -m pytest -ra -q -p no:cacheprovider "
        "--timeout=900 --continue-on-collection-errors")

# id -> (level, technique, text, note, design_ref)
CHECKS = {
 "C01": ("model_checking",
         "explicit-state history BFS over all public mutator sequences (depth<=2 quick, <=3 thorough) on real objects with a freshly-constructed-twin oracle",
         "For every memoising class (17 class drivers: Network, Interacting, Spatial, Geo, Res, Climate, Tsonis, RecurrencePlot, RecurrenceNetwork, Cross/Joint plots, JointRecurrenceNetwork, InterSystem, Visibility, Surrogates, ClimateData) ALL sequences of public mutators up to the depth bound are executed on a real object, with every public query (introspected, plus argument patterns) evaluated before and after each mutator, and compared with a freshly constructed twin of the reference-model state; both the all-queries-populated and the single-query-in-isolation population modes are explored.",
         "Bounded depth and 6-10 node fixtures; mutator argument menus of 2-4 values; combinations whose meaning is undocumented (link attributes after rewiring) excluded and counted. Trusted: the reference-model update written per mutator from its documentation.",
         "7/C01"),
 "C06": ("model_checking",
         "explicit-state exploration of query sequences on real objects: every q1 followed by every query vs pristine objects, all ordered pairs (thorough), ordered pairs of derived climate networks over one shared data object, byte-wise input snapshots",
         "For each of 21 class drivers and every query q1, a fresh real object executes q1 and then every public query (q1 included); each result is compared with the same query on its own pristine object, differences are delta-debugged to the culprit pair, and every caller-supplied array (constructor and query arguments) is compared byte-wise with a copy taken before the call; every ordered pair of 8 climate-network classes is built over ONE shared ClimateData and compared with construction from pristine data.",
         "Fixtures of 6-10 nodes / 10-40 samples, one or two models per class; random queries run under reseeded generators; the thorough tier runs every ordered pair on its own fresh object.",
         "7/C06"),
 "C08": ("exploration",
         "bounded-exhaustive enumeration of all binary matrices <=5x5 on the real kernels vs run-length reference model",
         "Every symmetric 0/1 matrix with unit diagonal up to 5x5 (realised by crafted series), every 0/1 matrix up to 3x3 (4x4 thorough) assigned as R, both storage modes, every missing-value mask and every minimal line length are run through the real RecurrencePlot kernels and compared with a direct run-length count; derived measures are recomputed from the histograms.",
         "Small scope (N<=5); float32 boundary behaviour covered by a purpose-built exhaustive family, not for all reals. Trusted: numpy, the reference run-length counter (self-checked by the accounting identities).",
         "7/C08"),
}

NOT_YET = {}


def main():
    props = [json.loads(l) for l in open(os.path.join(HERE, "properties.jsonl"))]
    checks, na = [], []
    for p in props:
        pid = p["id"]
        if pid in CHECKS:
            level, tech, text, note, ref = CHECKS[pid]
            checks.append({
                "property_id": pid,
                "quick_cmd": "./check %s --tier quick" % pid,
                "thorough_cmd": "./check %s --tier thorough" % pid,
                "evidence_file": "/verif/evidence/%s.json" % pid,
                "replay_cmd_template": "./check %s --replay {path}" % pid,
                "engine": "mc-explorer",
                "level_claimed": {"category": level, "text": text,
                                  "design_ref": "DESIGN.md section " + ref},
                "level_note": note,
                "technique": tech,
            })
        else:
            na.append({"property_id": pid, "reason": NOT_YET.get(
                pid, "check not built yet (planned in DESIGN.md section 7); "
                "not claimed until it runs clean on the unchanged tree")})
    man = {
        "version": 1,
        "setup_cmd": "cd /verif && ./check --setup",
        "hooks": {
            "guard": "PYUNICORN_VERIF",
            "enable": "no source hooks are needed: checks rebuild a mirror of /repo's working tree under /var/tmp/pyunicorn-verif and replace RNG/MPI/pool seams from outside (DESIGN.md section 5)",
            "baseline_off_cmd": BASE,
            "source_commits": [],
            "add_only": True,
        },
        "engines": [{
            "name": "mc-explorer", "path": "/verif/mc",
            "serves_properties": sorted(CHECKS),
            "kind_free_text": "hand-written explicit enumeration explorer (history BFS, bounded-exhaustive inputs, choice-sequence DFS with deviation bound, cooperative scheduler) executing the real implementation against reference models",
        }],
        "checks": checks,
        "not_applicable": na,
        "notes": "Known findings: /verif/known_findings.txt; replay files: /verif/replays/. See DESIGN.md.",
    }
    with open(os.path.join(HERE, "MANIFEST.json"), "w") as fh:
        json.dump(man, fh, indent=1)
    print("claimed:", sorted(CHECKS), "not_applicable:", len(na))


if __name__ == "__main__":
    main()
