#!/usr/bin/env python3
"""Generate /verif/MANIFEST.json from the table below (keeps it valid)."""
import json
import os

HERE = os.path.dirname(os.path.dirname(os.path.abspath(__file__)))
BASE = ("cd /repo && /venv/bin/python -m pytest -ra -q -p no:cacheprovider "
        "--timeout=900 --continue-on-collection-errors")

# id -> (level, technique, text, note, design_ref)
CHECKS = {
 "C01": ("model_checking",
         "explicit-state history BFS over all public mutator sequences (depth<=2 quick, <=3 thorough) on real objects with a freshly-constructed-twin oracle",
         "For every memoising class (17 class drivers: Network, Interacting, Spatial, Geo, Res, Climate, Tsonis, RecurrencePlot, RecurrenceNetwork, Cross/Joint plots, JointRecurrenceNetwork, InterSystem, Visibility, Surrogates, ClimateData) ALL sequences of public mutators up to the depth bound are executed on a real object, with every public query (introspected, plus argument patterns) evaluated before and after each mutator, and compared with a freshly constructed twin of the reference-model state; both the all-queries-populated and the single-query-in-isolation population modes are explored.",
         "Bounded depth and 6-10 node fixtures; mutator argument menus of 2-4 values; combinations whose meaning is undocumented (link attributes after rewiring) excluded and counted. Trusted: the reference-model update written per mutator from its documentation.",
         "7/C01"),
 "C06": ("model_checking",
         "explicit-state exploration of query sequences on real objects: every q1 followed by every query vs pristine objects, all ordered pairs (thorough), ordered pairs of derived climate networks over one shared data object, byte-wise input snapshots",
         "For each of 21 class drivers and every query q1, a fresh real object executes q1 and then every public query (q1 included); each result is compared with the same query on its own pristine object, differences are delta-debugged to the culprit pair, and every caller-supplied array (constructor and query arguments) is compared byte-wise with a copy taken before the call; every ordered pair of 8 climate-network classes is built over ONE shared ClimateData and compared with construction from pristine data.",
         "Fixtures of 6-10 nodes / 10-40 samples, one or two models per class; random queries run under reseeded generators; the thorough tier runs every ordered pair on its own fresh object.",
         "7/C06"),
 "C02": ("exploration",
         "bounded-exhaustive enumeration of all labelled graphs (<=5 undirected, <=4 directed) x weight vectors x every node x split proportions, iterated splits and all group pairs, on the real splitted_copy and nsi_* methods (metamorphic oracle)",
         "For every labelled undirected graph on 1..4 nodes plus iso(5) and directed on 1..3 plus iso(4) (thorough: all of <=5 / <=4), 2 positive weight vectors, every node and proportions {0.3,0.5}, net.splitted_copy() (first verified against an independent construction) and net are compared on all 29 nsi_* methods of Network in every argument pattern (link attribute, typical weight, options) by the origin-map relation of the property; depth-2 splits on iso(5); all ordered pairs of disjoint groups for the 12 nsi_cross/internal methods of InteractingNetworks.",
         "Small scope; spectral measures on connected undirected graphs only; betweenness variants undirected only; histogram outputs excluded; mismatches that a 1e-11 weight perturbation already produces are discarded as ill-conditioned and counted.",
         "7/C02"),
 "C04": ("exploration",
         "exhaustive enumeration of isomorphism-class representatives x ALL n! relabellings (n<=5 undirected, <=4 directed) on the real measures of Network, Interacting, Spatial, Geo, Res, Recurrence and Visibility networks with a per-method equivariance table",
         "Every isomorphism class on 2..5 nodes (directed 2..4) under all n! permutations (quick: all for n<=4, a 9-permutation sample incl. transpositions, reversal and cycles for n=5), with weights, link attributes, coordinates, resistances and node-list arguments relabelled accordingly (lists also re-sorted and rotated), is compared measure by measure (82 table entries; scalar equal, node/pair/operator outputs permuted, group outputs by list position); unclassified methods are held to multiset equality.",
         "Small scope; eigenvector-type centralities only on connected undirected graphs (ARPACK degeneracy, 1e-6); float32 paths at float32 tolerance.",
         "7/C04"),
 "C09": ("model_checking",
         "bounded-exhaustive similarity matrices (all 8192 3x3 over a 4-letter alphabet with ties, 4x4 symmetric) x grids x explicit-state histories of set_threshold/set_link_density/set_non_local (depth<=2 quick, <=3 thorough) on the real ClimateNetwork vs a Fraction reference model and a fresh twin",
         "Every N=3 similarity matrix over {-0.8,0.3,0.3(tie),0.6} (symmetric and asymmetric, diagonal 1 or 0) and N=4 symmetric over 3 letters, on 3 grids, directed or not, local or non-local, is thresholded at every realised value, midpoint, -1, 2 and every density in {0,1/6,...,1}; all setter histories up to the depth bound (model states by BFS on the reference model) are executed with threshold(), link_density, n_links, adjacency checked for mutual consistency, the stated quantile and density bounds, monotonicity, symmetry and equality with a freshly constructed network; 13 data-derived subclasses on tiny data sets for the thresholding relation.",
         "Thresholds within float32 tolerance of a similarity value are excluded and counted; distances as the grid reports them (C12).",
         "7/C09"),
 "C10": ("exploration",
         "bounded-exhaustive enumeration of all data arrays (T,N) in {(3,2),(4,2),(5,2),(3,3)} over small alphabets x tau_max x lag modes x estimators on the real CouplingAnalysis (compiled and pure Python), climate similarity classes and surrogate test matrices vs reference statistics",
         "All arrays of the listed shapes over {0,1,2} / {0,1} (constant, duplicated, anti-correlated columns and N>T included) with tau_max in {0,1,2}, both lag modes, gauss/binning estimators, plus 12 fixed data sets for kNN and Gaussian information transfer, are evaluated and compared with numpy.corrcoef on the library's window convention, scipy.stats.spearmanr, regression-residual partial correlation, explicit histogram sums, -1/2 log(1-rho^2) and brute-force kNN counts; symmetry, bounds, affine invariance, column-permutation equivariance, symmetrize_by_absmax and compiled-vs-pure-Python agreement on the common sub-domain are checked as relations.",
         "Statistics that are undefined (0/0 on constant windows, |rho|=1, singular covariance) are decided in exact arithmetic, excluded and counted; float32 tolerance.",
         "7/C10"),
 "C13": ("model_checking",
         "bounded-exhaustive observables x irregular grids x cycle lengths x all 125 menu windows, and explicit-state histories of set_window/set_global_window (depth<=2 quick, <=3 thorough) on the real Data/ClimateData vs a selection reference model",
         "Every grid of 3-4 points from a 6-point alphabet, T in {5,6,7}, cycles {1,2,3,5}, anomalies flag on/off: all 125 windows (bounds on samples, between, outside, equal bounds) in sequence and every window history up to the depth bound, with observable(), grid sequences/sizes, window(), phase_mean(), anomaly(), phase_indices(), anomaly_selected_months() compared after every step with a closed-interval selection on the float32-stored coordinates and Fraction phase arithmetic; zero phase mean and add-back identities on the library output.",
         "Windows that select nothing (the library raises) and the one-degenerate-spatial-axis convention are counted, not judged.",
         "7/C13"),
 "C15": ("model_checking",
         "choice-sequence DFS with deviation bound over every answer the random sources can give (permutations, phase vectors, normal draws, twin-walk draws) x histories of 1-3 generator calls on one object, on the real Surrogates / RecurrencePlot code vs exact oracles",
         "The random sources of surrogates.py and of the twin-walk kernels are replaced by choice points (option 0 = the seeded default); all executions with <= 1 deviation (2 on the smallest data and the twin sweep) are run for all rows of length 4-5 over {0,1,3}, structured 2-row arrays and fixed arrays of length 8-16, for every generator called three times on the same object and every ordered pair of generators; shuffle/AAFT outputs must be exact row permutations, Fourier-type outputs must keep the amplitude spectrum (explicit DFT), twins must equal the oracle's twin sets, and every twin-surrogate step must be a legal transition (NFA); one recorded sequence per case is replayed twice as a seam self-test.",
         "Deviation bound 1-2; N=2 arrays are a structured subset; for a state pair exactly at the threshold the neighbourhoods are the rows of the class's own recurrence plot. Trusted: numpy FFT only inside the library (the oracle uses an explicit DFT).",
         "7/C15"),
 "C17": ("model_checking",
         "choice-sequence DFS with iterative-deepening deviation bound over every index/real the random sources can return, on the real rewiring kernels and model generators, with invariants checked on every completed execution",
         "The draws of the own kernels (numpy.random.random, the extension-module randint), of numpy in the Python generators and of igraph's RNG are choice points with menus covering every index; all executions up to deviation bound 2 (3 thorough, 4 for the geomodel kernel) under an explicit draw horizon are run on iso(5) plus connected 6-node graphs, all bipartitions, 3 point sets, tolerances {0,0.5,100}, 1-3 iterations; every execution must return a simple graph with unchanged N and degrees, link-length classes within tolerance (II/III also per node / degree pairs), untouched internal blocks and cross degrees, exact prescribed link counts, degrees <= requested.",
         "Inputs on which no admissible swap exists (every execution hits the horizon; confirmed by a reference admissibility model) are excluded and counted; igraph internals trusted.",
         "7/C17"),
 "C16": ("exploration",
         "exhaustive enumeration of all ordered pairs of binary sequences of length <=6 (<=8 thorough) x taumax x lag x timestamps, all 5x3 event matrices x symmetrisations, all (4,2) data arrays for thresholding, on the real EventSeries vs Fraction counting rules",
         "Every ordered pair of 0/1 sequences up to the length bound with taumax in {0,1,2,inf}, lag in {0,1} and two timestamp sets is passed to event_synchronization and event_coincidence_analysis and compared with a Fraction transcription of the published counting rules; ranges, exchange symmetry, time-shift and (taumax=inf) time-scaling invariance; all 32768 5x3 event matrices (and 7x2) for the matrix analysis under all symmetrisation options; make_event_matrix on all (4,2) arrays over {0,1,2} for every method/type/quantile.",
         "Pairs with undefined rates (too few events, zero denominator) excluded and counted.",
         "7/C16"),
 "C20": ("exploration",
         "bounded-exhaustive enumeration of shapes x dtypes x memory orders x loop-bound parameters over 20 public entry points, each case in its own forked child of an ASan+UBSan-preloaded interpreter running a sanitised build of the four extensions",
         "The four extension modules are rebuilt from /repo's working tree with -fsanitize=address,undefined -fno-sanitize-recover; ~3800 cases (each array dimension in {0,1,2,3,5,...}, N != T both ways, float64/float32/int64, C/Fortran/non-contiguous, parameters that reach loops indexing before testing a bound) run one per forked child; return or Python exception = pass, sanitiser report with a frame in pyunicorn's translation units or a fatal signal = violation; a deliberately wrong C helper built with the same flags must produce a report (negative control) or the check declares itself broken.",
         "Shapes/dtypes listed, not all sizes; reports inside uninstrumented numpy/scipy/igraph are counted, not charged; endless retry loops of the randomisers are cut by a draw limit / CPU cap and counted as no verdict.",
         "7/C20"),
 "C03": ("exploration",
         "bounded-exhaustive enumeration of all labelled graphs (<=5 undirected / <=4 directed nodes, link-weight assignments, structured larger graphs) on the real Network methods vs by-definition evaluators",
         "Every labelled undirected graph on <=4 nodes plus iso(5) (thorough: all of <=5 plus iso(6)), every directed graph on <=3 plus iso(4) (thorough: all <=4), every {0.5,1,2} link-weight assignment on the small classes, and a fixed list of structured graphs up to 1293 nodes (hubs stressing integer widths) are run through ~70 Network measures and compared with loop/BFS/path-enumeration/linear-solve evaluators written from the docstring definitions; the evaluators are self-tested against networkx and the docstring examples on every run.",
         "Small scope plus named families; conventions (normalisations) are taken from the docstring examples; measures are judged only on the graph class where their definition is unambiguous, everything else is counted as excluded. Trusted: numpy linear algebra for the random-walk/spectral oracles.",
         "7/C03"),
 "C05": ("exploration",
         "bounded-exhaustive enumeration of graphs x node weights x link attributes x ~20 construction paths x 4 file formats on the real constructors, cross-compared with the input specification",
         "Every labelled undirected graph on 2-4 nodes plus iso(5) and directed on 2-3 nodes (thorough: all 5-node graphs, iso(4) directed), with 3 weight vectors and 0-2 link attributes, is built through dense/ndarray/sparse/edge-list/set_edge_list/FromIGraph/copy/undirected_copy and save->Load in graphml, graphmlz, pickle and gml (also Spatial/Geo/ClimateNetwork), and N, n_links, link_density, adjacency, sp_A, embedded igraph edge set, node weights (total, mean) and link attributes are compared with the input and with each other; internal consumers (local_vulnerability, component-wise betweenness, rewiring) run on the same tiny graphs.",
         "Small scope; one-node networks excluded where the density is 0/0. Trusted: igraph's file readers/writers.",
         "7/C05"),
 "C07": ("exploration",
         "bounded-exhaustive enumeration of all series over a dyadic alphabet (length<=4/5, NaN masks, embeddings, 3 metrics, threshold/rate/local/adaptive menus, lags, unequal lengths) on the real plot classes vs an exact rational reference model",
         "All 1-D series of length 1..4 (thorough 5) over {0,.5,1,2}, all 2-D series of length <=3 over {0,1}^2, all NaN patterns, 4 embeddings and 3 metrics are turned into RecurrencePlot/RecurrenceNetwork/Cross/Joint/InterSystem objects for every realised distance, every midpoint, 0 and a large threshold, threshold_std, global/local rates and adaptive sizes; R/CR/JR/ISRM, sizes, recurrence rates and adjacency are compared with an exact Fraction model, and every RQA method is called on each plot type (applicability).",
         "Dyadic alphabet so that every comparison is exact; irrational thresholds excluded; sparse_rqa is C08's. Trusted: the Fraction reference model.",
         "7/C07"),
 "C11": ("exploration",
         "bounded-exhaustive enumeration of graphs x weights x link attribute x ALL ordered pairs of disjoint node lists (sorted, reversed, rotated) on the real InteractingNetworks methods vs sub-block definitions",
         "For all labelled graphs on 2-4 nodes plus iso(5) (directed <=3; thorough adds all bipartitions on iso(6)), 3 weight vectors and a link attribute, every ordered pair of disjoint non-empty node lists in three list orders is passed to all 32 pair methods and 16 single-list methods of InteractingNetworks (found by introspection) and compared with by-definition sub-block evaluators; _sparse == compiled, argument-swap symmetry, whole-node-set == Network measure and the CoupledClimateNetwork wrappers are checked as relations.",
         "Small scope; pairs without any connecting path excluded where no convention is documented. Trusted: the plain-Python block evaluators (self-tested on 38 docstring examples).",
         "7/C11"),
 "C12": ("exploration",
         "exhaustive enumeration of all ordered pairs and triples of a 44-point coordinate alphabet (poles, antimeridian, aliases, antipodes, near-coincident), all small grids and lookups, on the real Grid/GeoGrid kernels vs float64 closed forms with a derived error bound",
         "Every ordered pair and triple of a 44-point alphabet (60 thorough) is built as a real GeoGrid and its angular distance matrix compared with atan2(|a x b|, a.b) of the float32-stored coordinates under the analytic error bound of DESIGN 7/C12, plus exact symmetry, range and triangle inequality; Euclidean grids in dimension 1..4, nearest-node lookups against exact minima, rectangular grids against itertools.product, region_indices against an exact even-odd rule, node weights and area-weighted measures against cos(latitude).",
         "Alphabet-based, not all reals; error bound derived for float32 cosines. Trusted: Python math in float64.",
         "7/C12"),
 "C14": ("exploration",
         "bounded-exhaustive enumeration of all series of length 2..5 (6,7 thorough) over {0,1,2,3}, timings, NaN masks, both graph types on the real kernels vs a Fraction visibility criterion and metamorphic relations",
         "Every series over {0,1,2,3} of length 2..5 (thorough 6, and 7 over 3 letters), three timing vectors, every NaN mask and both graph types is turned into a VisibilityGraph and its adjacency compared with the exact rational line criterion; affine invariance, time reversal (retarded <-> advanced) and retarded+advanced=degree are checked, and the time-directed measures against their definitions on the library's adjacency.",
         "Integer alphabet (exact in float32). Trusted: Fraction arithmetic.",
         "7/C14"),
 "C18": ("model_checking",
         "bounded-exhaustive inputs (all connected graphs <=5 nodes x all {1/2,1,2} resistance assignments) x explicit-state histories of update_resistances interleaved with queries, on the real ResNetwork vs exact rational circuit solver and a fresh twin",
         "All connected iso classes on 2..5 nodes under all relabellings (n<=4) and every resistance assignment over {1/2,1,2} for <=6 links, ladder/series/parallel families up to 8 nodes and complex impedances are solved exactly (Fraction Gauss-Jordan on the grounded Laplacian) and compared with ResNetwork; metric axioms, path bound, Foster, scaling, series/parallel laws are asserted on the library values; every sequence of <=2 update_resistances with every block of <=2 average/diameter queries in every gap is compared with a freshly constructed twin.",
         "Resistances from a 3-letter alphabet; betweenness on <=5 nodes. Trusted: the exact solver (self-checked by circuit laws).",
         "7/C18"),
 "C19": ("model_checking",
         "stateless schedule exploration (choice-sequence DFS, preemption bound 1 quick / 2 thorough) of the real master loops over an in-process MPI world running the unmodified utils/mpi.py per rank, x worker counts x verbosity levels; exhaustive contiguous chunkings for the chunk kernels; all batch orders for the pool",
         "The real Network.newman_betweenness / nsi_newman_betweenness / nsi_arenas_betweenness master loops run as rank 0 of an in-process MPI world whose slaves execute the unmodified utils/mpi.py serve() loop in threads under a cooperative scheduler; every send/recv is a scheduling point, all schedules within the preemption bound are executed for 2-4 ranks (default schedule up to 13 ranks), silence levels 0..3, 3-6 graphs with several components; results must equal the serial call, no deadlock; all 2^(N-1) contiguous chunkings of the three chunk kernels on all connected graphs <=5 nodes; nsi_betweenness(parallelize=True) with every cpu_count and batch order over pickled arguments.",
         "MPI modelled with eager sends, blocking receives, per-pair FIFO; rendezvous sends and real multi-process memory are not modelled. Payloads are pickled.",
         "7/C19"),
 "C08": ("exploration",
         "bounded-exhaustive enumeration of all binary matrices <=5x5 on the real kernels vs run-length reference model",
         "Every symmetric 0/1 matrix with unit diagonal up to 5x5 (realised by crafted series), every 0/1 matrix up to 3x3 (4x4 thorough) assigned as R, both storage modes, every missing-value mask and every minimal line length are run through the real RecurrencePlot kernels and compared with a direct run-length count; derived measures are recomputed from the histograms.",
         "Small scope (N<=5); float32 boundary behaviour covered by a purpose-built exhaustive family, not for all reals. Trusted: numpy, the reference run-length counter (self-checked by the accounting identities).",
         "7/C08"),
}

NOT_YET = {}

# families added after the first build (DESIGN.md sections 11 and 13); the
# sentence is appended to the level text of the check
FORMS = (" `forms`: the object built from an equal-valued constructor input in "
         "another legal form (nested list, Fortran order, strided views, other "
         "exactly representing element types, read-only) must answer every "
         "introspected query like the one built from the C-ordered array.")
EXTRA = {
 "C01": " Added: drivers for the Rainfall and EventSeries climate networks, a metric switch between two rate-based thresholdings, link-density requests modelled by the threshold a fresh object derives, depth-3 histories for ClimateData, Surrogates and the Tsonis network in the quick tier; the class-level memo is emptied before the twin is evaluated.",
 "C02": " Added: `scale` (structured graphs of 21-300 nodes) and the n.s.i. entries of dict-valued methods (distance_based_measures).",
 "C03": " Added: `scale`/`named` structured graphs up to 300 nodes and a link-length alphabet containing 0; `inherit` (every measure a Network subclass inherits, on objects of 21 subclass drivers - fresh and after each public mutator - vs the plain Network with the same adjacency, weights and link attributes); a signed link attribute for the strength-type measures; pagerank(use_directed=False).",
 "C04": " Added: `scale`; directed InteractingNetworks with node lists mapped element by element; recurrence networks with fixed rate / fixed local rate on tie-rich series.",
 "C05": " Added: sparse inputs with stored zeros, save-after-change histories (weights, adjacency), a signed link attribute, igraph objects with edges in another order, copy + in-place weight update, `scale` (N >= 182)." + FORMS,
 "C06": " Added: family `two_objects` (A, another object B of the same class, A again - queries and every mutator - vs A alone) and fingerprints of every data object (grid, ClimateData) handed to a constructor through that object's own public queries; every observed array is snapshotted at observation time (aliasing with library buffers); family `weighted_n`: weighted paths whose end-to-end distance is exactly N (with and without unreachable pairs), every ordered history q1 then all path queries vs pristine objects.",
 "C07": " Added: `scale` (130-300 states), `normalize=True`, and re-thresholding of every explored recurrence network through the matching public setter (the adaptive one also with an explicit processing order); `offset` (trajectories far from the origin and close to each other)." + FORMS,
 "C08": " Added: `long` (scan lines beyond 256 cells) and float32-boundary thresholds in sequential mode; `objects` (recurrence networks, joint plots and joint networks, fresh and after each mutator, vs run-length counts of their own matrix); `rqa_summary` with l_min != v_min; `embedded_mv` (NaN samples under delay embedding).",
 "C09": " Added: `scale` (129-209 nodes, non-local bands, coincident nodes); the directed Hilbert network vs a fresh object after every setter." + FORMS,
 "C10": " Added: `scale` (>= 17 bins) and `gridded` ([time, lat, lon] / [time, level, lat, lon] input vs its row-major reshape, both classes); full-sample time surrogates vs the full-window statistic; shift invariance of the climate similarity measures; estimates before and after a surrogate draw." + FORMS,
 "C11": " Added: `scale` (counters >= 128, unsorted groups on 16-30 node graphs, N >= 182) and links of length exactly 0; compiled == _sparse for the cross clustering twins on directed networks too.",
 "C12": " Added: `scale` (hundreds of nodes, small separations on large grids); the inherited Euclidean and the angular matrix on one GeoGrid in both orders." + FORMS,
 "C13": " Added: `scale` (|t|/dt > 1e5, T up to 300), time stamps that are not single-precision numbers with bounds on samples, integer observables." + FORMS,
 "C14": " Added: `mid`/`scale` (17-300 samples, divide-and-conquer patterns) and uneven timings far from the origin." + FORMS,
 "C15": " Added: `scale` (>= 128 neighbours) and threshold ties judged against the class's own recurrence plot." + FORMS,
 "C16": " Added: `scale` (60-513 samples, large time offsets, fine time units), taumax = 0, integer / float32 / shifted data for event extraction." + FORMS,
 "C17": " Added: `scale` families, density-to-count round trips for products up to 400, node lists in non-ascending order; degree-preserving rewiring of directed networks (in- and out-degrees).",
 "C18": " Added: `scale` (25-40 nodes, resistances over >= 10 decades, several components) and `routes` (adjacency= with values on non-links, update with a full matrix / the same array edited in place, real <-> complex updates); the scaling law with factors 2^-30 ... 2^30." + FORMS,
 "C19": " Added: components of 52-213 nodes (part arithmetic), more than 100 nodes per slave; preemption bounds 2/1 (quick) and 3/2 (thorough); distributed runs on objects of seven Network subclasses.",
 "C20": " Added: entries with 10-40 nodes / hundreds of samples (thorough) and the twin kernels of Surrogates (3-D embedding); tools/kernel_reach.py confirms that every function of the four extension modules is reached; cross-recurrence entries with unequal lengths in more than one dimension; call histories within one process; chunk kernels on row blocks; networks of 12-150 nodes with fewer links than nodes; undersized caller matrices for symmetrize_by_absmax.",
}


def main():
    props = [json.loads(l) for l in open(os.path.join(HERE, "properties.jsonl"))]
    checks, na = [], []
    for p in props:
        pid = p["id"]
        if pid in CHECKS:
            level, tech, text, note, ref = CHECKS[pid]
            checks.append({
                "property_id": pid,
                "quick_cmd": "./check %s --tier quick" % pid,
                "thorough_cmd": "./check %s --tier thorough" % pid,
                "evidence_file": "/verif/evidence/%s.json" % pid,
                "replay_cmd_template": "./check %s --replay {path}" % pid,
                "engine": "mc-explorer",
                "level_claimed": {"category": level,
                                  "text": text + EXTRA.get(pid, ""),
                                  "design_ref": "DESIGN.md section " + ref},
                "level_note": note,
                "technique": tech,
            })
        else:
            na.append({"property_id": pid, "reason": NOT_YET.get(
                pid, "check not built yet (planned in DESIGN.md section 7); "
                "not claimed until it runs clean on the unchanged tree")})
    man = {
        "version": 1,
        "setup_cmd": "cd /verif && ./check --setup",
        "hooks": {
            "guard": "PYUNICORN_VERIF",
            "enable": "no source hooks are needed: checks rebuild a mirror of /repo's working tree under /var/tmp/pyunicorn-verif and replace RNG/MPI/pool seams from outside (DESIGN.md section 5)",
            "baseline_off_cmd": BASE,
            "source_commits": [],
            "add_only": True,
        },
        "engines": [{
            "name": "mc-explorer", "path": "/verif/mc",
            "serves_properties": sorted(CHECKS),
            "kind_free_text": "hand-written explicit enumeration explorer (history BFS, bounded-exhaustive inputs, choice-sequence DFS with deviation bound, cooperative scheduler) executing the real implementation against reference models",
        }],
        "checks": checks,
        "not_applicable": na,
        "notes": "Known findings: /verif/known_findings.txt; replay files: /verif/replays/. See DESIGN.md.",
    }
    with open(os.path.join(HERE, "MANIFEST.json"), "w") as fh:
        json.dump(man, fh, indent=1)
    print("claimed:", sorted(CHECKS), "not_applicable:", len(na))


if __name__ == "__main__":
    main()
