#!/venv/bin/python
"""Analysis aid (not a registered check): which compiled kernels do the C20
entry points reach?  Runs every C20 case in-process on the normal build with
counting wrappers around every function of the four _ext.numerics modules.
Usage: PYTHONPATH=/verif /venv/bin/python tools/kernel_reach.py [quick|thorough]
"""
import collections
import importlib
import os
import sys
import types

sys.path.insert(0, os.path.dirname(os.path.dirname(os.path.abspath(__file__))))
from mc import build                                    # noqa
sys.path.insert(0, build.ensure())
tier = sys.argv[1] if len(sys.argv) > 1 else "quick"
import pyunicorn                                         # noqa
from mc.checks import c20, c20_entries                   # noqa

counts = collections.Counter()
kernels = {}
for pkg in ("core", "climate", "funcnet", "timeseries"):
    m = importlib.import_module("pyunicorn.%s._ext.numerics" % pkg)
    for n in dir(m):
        f = getattr(m, n)
        if callable(f) and not n.startswith("__") \
                and type(f).__name__ in ("cython_function_or_method",
                                         "builtin_function_or_method"):
            kernels[(pkg, n)] = f


def wrap(key, f):
    def w(*a, **k):
        counts[key] += 1
        return f(*a, **k)
    return w


for name, mod in list(sys.modules.items()):
    if not name.startswith("pyunicorn") or "_ext" in name or mod is None:
        continue
    for (pkg, n), f in kernels.items():
        if getattr(mod, n, None) is f:
            setattr(mod, n, wrap((pkg, n), f))

import json
import resource

cs = [c for c in c20.cases(tier == "thorough") if c[0] != "control"]
JOBS = 12
hung = 0


def child(case, wfd):
    resource.setrlimit(resource.RLIMIT_CPU, (8, 9))
    base = dict(counts)
    os.dup2(os.open(os.devnull, os.O_WRONLY), 1)
    os.dup2(os.open(os.devnull, os.O_WRONLY), 2)
    try:
        c20_entries.run_case(case)
    except BaseException:   # noqa
        pass
    os.write(wfd, json.dumps([[k[0], k[1], v - base.get(k, 0)]
                              for k, v in counts.items()]).encode())
    os._exit(0)


for a in range(0, len(cs), JOBS):
    procs = []
    for case in cs[a:a + JOBS]:
        r, w = os.pipe()
        pid = os.fork()
        if pid == 0:
            os.close(r)
            child(case, w)
        os.close(w)
        procs.append((pid, r))
    for pid, r in procs:
        data = b""
        while True:
            b = os.read(r, 65536)
            if not b:
                break
            data += b
        os.close(r)
        os.waitpid(pid, 0)
        if not data:
            hung += 1
            continue
        for pkg, n, v in json.loads(data):
            counts[(pkg, n)] += v
print("cases", len(cs), "killed by the CPU cap", hung)
for key in sorted(kernels):
    print("%-12s %-55s %d" % (key[0], key[1], counts[key]))
print("never reached:", sorted(k for k in kernels if not counts[k]))
